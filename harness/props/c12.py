"""C12 — loss values, derivatives and fast paths agree.

Sub-checks (all compare the real quara classes with the extracted Coq model Model/C12_Loss.v and evaluate the
property's own predicates on the implementation's outputs):

  se_callables  WeightedProbabilityBasedSquaredError built from arbitrary callables: value/gradient/Hessian formula
                (incl. the Hessian-of-p term and a Jacobian that is NOT the model's) vs model; exact Taylor identities
                f(v+h) = f v + <g,h> + 1/2 h'Hh and g(v+h) = g v + H h on the implementation's outputs; error branches.
  se_qt         set_from_standard_qtomography_option_data on the four tomography types, both parametrisations, outcome
                counts 2..6, every weighting mode, fresh and reused objects, direct setter, re-used option objects (same
                object / equal-but-distinct object, new / same data), generic and fast class:
                (a) value/gradient/Hessian formulas at the object's own weights / cache;
                (b) the property: the configured mode takes effect (value = formula with the weights the mode denotes for
                    THIS data, inverse certified exactly) for any outcome count, and fast = generic;
                (c) object state (weights, cached extension) after every call = the state-machine model of the code
                    (Model/C12_Loss.v = the code with the repairs /verif/fixes/c12-*.diff).
  re_callables  WeightedRelativeEntropy from callables, inside / outside the positive region (clipping branches),
                zero data entries, weights: value (model terms, logarithm evaluated with 50 digits), gradient, Hessian.
  re_qt         relative entropy through the tomography configuration, custom weights via option / constructor /
                setter, generic vs fast, object state vs the state-machine model, Euler identities (b = 0),
                finite-difference consistency.
  fns           quara.math.entropy functions (scalar and vector forms, validation branches), replace_prob_dist,
                calc_covariance_mat, inverse-covariance weight construction for 2..5 outcomes and all three accepted
                spellings (inverse certified exactly, leading-block placement).
  simple_quadratic
"""
import warnings
from fractions import Fraction
from decimal import Decimal, getcontext
import numpy as np
from common import flow

LEVEL = "proof"
EPS = 1e-10                      # eps_q = eps_p defaults of quara.math.entropy
REPL_EPS = 1e-8                  # replace_prob_dist default
TOL = 1e-9

SITE_SE_MODE = "WeightedProbabilityBasedSquaredError._set_weights_by_mode"
SITE_SE_FAST = "StandardQTomographyBasedWeightedProbabilityBasedSquaredError._calc_extend_weight_matrix"
SITE_RE_MODE = "WeightedRelativeEntropy._set_weights_by_mode"
SITE_RE_FAST = "StandardQTomographyBasedWeightedRelativeEntropy._calc_extend_weights"
MODES = {0: "identity", 1: "custom", 2: "inverse_sample_covariance", 3: "inverse_unbiased_covariance",
         4: "unbiased_inverse_covariance"}


# ------------------------------------------------------------------ small helpers
def ex(x):
    return Fraction(*float(x).as_integer_ratio())


def dy(rng, lo, hi, den):
    """random dyadic rational in [lo, hi] with denominator den (exactly representable as float)"""
    return rng.randint(lo * den, hi * den) / float(den)


def rel_close(a, b, tol):
    a = float(a); b = float(b)
    return abs(a - b) <= tol * (1.0 + max(abs(a), abs(b)))


def vec_close(xs, ys, tol, scale=None):
    xs = [float(x) for x in xs]; ys = [float(y) for y in ys]
    if len(xs) != len(ys):
        return False
    s = scale if scale is not None else max([abs(x) for x in xs] + [abs(y) for y in ys] + [0.0])
    return all(abs(a - b) <= tol * (1.0 + s) for a, b in zip(xs, ys))


def fl(a):
    return [float(x) for x in np.asarray(a, dtype=np.float64).ravel()]


def dln(fr):
    return (Decimal(fr.numerator) / Decimal(fr.denominator)).ln()


def dec(fr):
    return Decimal(fr.numerator) / Decimal(fr.denominator)


def ln_sum(coefs, args):
    """sum_i c_i ln a_i with 50 significant digits; returns (value, sum of |terms|) as floats"""
    getcontext().prec = 50
    tot = Decimal(0); mag = Decimal(0)
    for c, a in zip(coefs, args):
        if c == 0:
            continue
        t = dec(c) * dln(a)
        tot += t; mag += abs(t)
    return float(tot), float(mag)


def frac_inverse(M):
    """exact Gauss-Jordan inverse of a square Fraction matrix (list of lists); None if singular"""
    n = len(M)
    A = [list(r) + [Fraction(int(i == j)) for j in range(n)] for i, r in enumerate(M)]
    for c in range(n):
        piv = next((r for r in range(c, n) if A[r][c] != 0), None)
        if piv is None:
            return None
        A[c], A[piv] = A[piv], A[c]
        pv = A[c][c]
        A[c] = [x / pv for x in A[c]]
        for r in range(n):
            if r != c and A[r][c] != 0:
                f = A[r][c]
                A[r] = [x - f * y for x, y in zip(A[r], A[c])]
    return [r[n:] for r in A]


def quiet():
    w = warnings.catch_warnings()
    w.__enter__()
    warnings.simplefilter("ignore")
    return w


# ------------------------------------------------------------------ model wrappers
def m_se_at(m, ns, mm, nv, p, q, gp, W, hp):
    zs = [ns, mm, nv, 0 if W is None else 1, 0 if hp is None else 1]
    qs = list(p) + list(q) + list(gp) + ([] if W is None else list(W)) + ([] if hp is None else list(hp))
    r = m.call("c12.se_at", zs, qs)
    return r[0], r[1:1 + nv], r[1 + nv:]


def m_se(m, ns, mm, nv, A, b, q, v, W):
    r = m.call("c12.se", [ns, mm, nv, 0 if W is None else 1], list(A) + list(b) + list(q) + list(v) + ([] if W is None else list(W)))
    return r[0], r[1:1 + nv], r[1 + nv:]


def m_se_fast(m, N, nv, A, b, q, v, E):
    r = m.call("c12.se_fast", [N, nv, 0 if E is None else 1], list(A) + list(b) + list(q) + list(v) + ([] if E is None else list(E)))
    return r[0], r[1:]


def m_inv_weight(m, unbiased, mm, nd, q):
    """-> ('ok', W flat m*m Fractions) | ('err', code).  The inverse is computed here exactly and CERTIFIED by the model
    (two-sided product = I), then symmetrised and placed on the leading block by the model of the code (place_inv)."""
    n32 = float(nd) ** (3 / 2)
    M = m.call("c12.extracted", [int(unbiased), mm], [REPL_EPS, float(nd), n32] + list(q))
    k = mm - 1
    inv = frac_inverse([M[i * k:(i + 1) * k] for i in range(k)])
    if inv is None:
        return ("err", 3)
    return m.try_call("c12.inv_weight", [int(unbiased), mm], [REPL_EPS, float(nd), n32] + list(q) + [x for r in inv for x in r])


def m_re_parse(r, N, nv, hess=True):
    c = r[:N]; a = r[N:2 * N]; g = r[2 * N:2 * N + nv]; h = r[2 * N + nv:] if hess else None
    return c, a, g, h


# ------------------------------------------------------------------ tomography experiments
_EXPS = {}


def kpovm(c_sys, k, variant):
    """k-outcome qubit POVM with dyadic Bloch data: E_x = c_x (I + n_x.sigma), sum c_x = 1, sum c_x n_x = 0"""
    from quara.objects.povm import Povm
    rs = np.random.RandomState(1000 * k + variant)
    cs = [1.0 / (k + 1)] * (k - 1)
    ns_ = [rs.randint(-3, 4, 3) / 8.0 for _ in range(k - 1)]
    ck = 1.0 - sum(cs)
    nk = -sum(c * n for c, n in zip(cs, ns_)) / ck
    cs.append(ck); ns_.append(nk)
    vecs = [np.sqrt(2) * c * np.array([1.0, n[0], n[1], n[2]]) for c, n in zip(cs, ns_)]
    return Povm(c_sys, vecs, is_physicality_required=False)


def get_exp(name):
    """name = type-k-para, e.g. qst-3-T : tomography type, outcome parameter k, on_para_eq_constraint"""
    if name in _EXPS:
        return _EXPS[name]
    w = quiet()
    try:
        from quara.objects.composite_system_typical import generate_composite_system
        from quara.objects.tester_typical import generate_tester_states, generate_tester_povms
        from quara.objects.state import State
        from quara.objects.povm import Povm
        from quara.objects.gate import Gate
        from quara.objects.mprocess import MProcess
        from quara.protocol.qtomography.standard.standard_qst import StandardQst
        from quara.protocol.qtomography.standard.standard_povmt import StandardPovmt
        from quara.protocol.qtomography.standard.standard_qpt import StandardQpt
        from quara.protocol.qtomography.standard.standard_qmpt import StandardQmpt
        typ, k, para = name.split("-")
        k = int(k); para = para == "T"
        c_sys = generate_composite_system("qubit", 1)
        states = generate_tester_states(c_sys, ["x0", "y0", "z0", "z1"])
        povms = generate_tester_povms(c_sys, ["x", "y", "z"]) if k == 2 else [kpovm(c_sys, k, s) for s in range(3)]
        s2 = np.sqrt(2)
        if typ == "qst":
            qt = StandardQst(povms, on_para_eq_constraint=para, schedules="all")
            obj = State(c_sys, np.array([1, 0, 0, 0]) / s2, on_para_eq_constraint=para)
        elif typ == "qst2":       # two qubits: 9 product Pauli POVMs with 4 outcomes each, 15 / 16 variables (k is ignored)
            c2 = generate_composite_system("qubit", 2)
            qt = StandardQst(generate_tester_povms(c2, ["x", "y", "z"]), on_para_eq_constraint=para, schedules="all")
            obj = State(c2, np.array([0.5] + [0.0] * 15), on_para_eq_constraint=para)
        elif typ == "povmt":
            qt = StandardPovmt(states, num_outcomes=k, on_para_eq_constraint=para, schedules="all")
            obj = Povm(c_sys, [np.array([s2 / k, 0, 0, 0])] * k, on_para_eq_constraint=para)
        elif typ == "qpt":
            qt = StandardQpt(states, povms, on_para_eq_constraint=para, schedules="all")
            obj = Gate(c_sys, np.diag([1.0, 0, 0, 0]), on_para_eq_constraint=para)
        elif typ == "qmpt3":      # the estimated instrument has THREE outcomes (with para=True the equality constraint removes variables of the last one)
            qt = StandardQmpt(states, povms, num_outcomes=3, on_para_eq_constraint=para, schedules="all")
            obj = MProcess(c_sys, [np.diag([1.0 / 3, 0, 0, 0])] * 3, on_para_eq_constraint=para)
        elif typ == "qmpt":       # k = outcomes of the tester POVMs, the instrument has 2 outcomes
            qt = StandardQmpt(states, povms, num_outcomes=2, on_para_eq_constraint=para, schedules="all")
            obj = MProcess(c_sys, [np.diag([0.5, 0, 0, 0])] * 2, on_para_eq_constraint=para)
        else:
            raise ValueError(name)
        A = np.array(qt.calc_matA(), dtype=np.float64); b = np.array(qt.calc_vecB(), dtype=np.float64)
        ns = qt.num_schedules
        e = {"qt": qt, "A": A, "b": b, "ns": ns, "m": A.shape[0] // ns, "nv": qt.num_variables, "v0": np.array(obj.to_var(), dtype=np.float64)}
        assert A.shape == (e["ns"] * e["m"], e["nv"]) and e["v0"].shape == (e["nv"],)
        _EXPS[name] = e
        return e
    finally:
        w.__exit__(None, None, None)


EXP_QUICK = ["qst-2-T", "qst-2-F", "qst-3-T", "qst-4-F", "qst-5-T", "povmt-2-T", "povmt-2-F", "povmt-3-F", "povmt-4-T", "povmt-5-F",
             "qpt-2-T", "qpt-2-F", "qpt-3-F", "qmpt-2-T", "qmpt-2-F"]
EXP_MORE = ["qst-3-F", "qst-4-T", "qst-5-F", "povmt-3-T", "povmt-4-F", "povmt-5-T", "qpt-3-T", "qpt-4-T", "qmpt-3-T", "qmpt-3-F",
            "qst2-4-T", "qst2-4-F"]


def rand_q(rng, m, nd, zeros=True):
    """empirical distribution of nd shots over m outcomes (counts / nd, rounded once to float), zero entries likely"""
    cnt = [0] * m
    live = [x for x in range(m) if not (zeros and rng.random() < 0.25)]
    if not live:
        live = [rng.randrange(m)]
    wts_ = [rng.random() + 0.05 for _ in live]
    s = sum(wts_)
    rest = nd
    for t, x in enumerate(live[:-1]):
        c = min(rest, int(round(nd * wts_[t] / s)))
        cnt[x] = c; rest -= c
    cnt[live[-1]] = rest
    return [c / float(nd) for c in cnt]


def rand_sym(rng, m, den=8, lo=-2, hi=3):
    W = [[0.0] * m for _ in range(m)]
    for x in range(m):
        for y in range(x, m):
            W[x][y] = W[y][x] = dy(rng, lo, hi, den)
    return W


def rand_wvec(rng, ns):
    """weight vector for the relative entropy INCLUDING the boundary values the validator accepts (any float): exact 0.0
    entries (a schedule excluded from the fit), negative entries, the all-zero vector"""
    r = rng.random()
    if r < 0.06:
        return [0.0] * ns
    out = []
    for _ in range(ns):
        t = rng.random()
        out.append(0.0 if t < 0.2 else (-dy(rng, 1, 8, 8) if t < 0.3 else dy(rng, 1, 40, 8)))
    if r < 0.35 and all(x != 0.0 for x in out):
        out[rng.randrange(ns)] = 0.0
    return out


def wlab(w):
    """distribution bucket of a weight list (vector entries or flat matrices)"""
    if w is None:
        return "I"
    if all(x == 0.0 for x in w):
        return "wallzero"
    return "w" + ("0" if any(x == 0.0 for x in w) else "") + ("neg" if any(x < 0.0 for x in w) else "")


def rand_wmat(rng, m):
    """symmetric weight matrix INCLUDING boundary values the validator accepts (any real symmetric matrix): the zero matrix,
    singular rank-one matrices of either sign, diagonal matrices with zero entries; otherwise a generic indefinite one"""
    t = rng.random()
    if t < 0.12:
        return [[0.0] * m for _ in range(m)]
    if t < 0.24:
        u = [dy(rng, -2, 2, 4) for _ in range(m)]; sgn = rng.choice([1.0, -1.0])
        return [[sgn * u[x] * u[y] for y in range(m)] for x in range(m)]
    if t < 0.32:
        d = [rng.choice([0.0, 0.0, dy(rng, -2, 3, 8)]) for _ in range(m)]
        return [[d[x] if x == y else 0.0 for y in range(m)] for x in range(m)]
    return rand_sym(rng, m)


def rand_wmats(rng, ns, m):
    if rng.random() < 0.05:
        return [0.0] * (ns * m * m)                      # every schedule weighted by the zero matrix
    return [x for j in range(ns) for row in rand_wmat(rng, m) for x in row]


# ================================================================== se_callables
def se_loss_from_case(case):
    from quara.loss_function.weighted_probability_based_squared_error import WeightedProbabilityBasedSquaredError
    ns, m, nv = case["ns"], case["m"], case["nv"]
    N = ns * m
    A = np.array(case["A"], dtype=np.float64).reshape(N, nv); b = np.array(case["b"], dtype=np.float64)
    G = np.array(case["G"], dtype=np.float64).reshape(N, nv) if case.get("G") is not None else A
    HP = np.array(case["HP"], dtype=np.float64).reshape(nv, nv, N) if case.get("HP") is not None else np.zeros((nv, nv, N))
    fp = [(lambda j: (lambda var: A[j * m:(j + 1) * m] @ var + b[j * m:(j + 1) * m]))(j) for j in range(ns)]
    fg = [(lambda j: (lambda al, var: np.array(G[j * m:(j + 1) * m, al], dtype=np.float64)))(j) for j in range(ns)]
    fh = [(lambda j: (lambda al, be, var: np.array(HP[al, be, j * m:(j + 1) * m], dtype=np.float64)))(j) for j in range(ns)]
    q = np.array(case["q"], dtype=np.float64)
    qs = [q[j * m:(j + 1) * m] for j in range(ns)]
    W = None
    if case.get("W") is not None:
        W = [np.array(case["W"][j * m * m:(j + 1) * m * m], dtype=np.dtype(case.get("wdtype", "float64"))).reshape(m, m) for j in range(ns)]
    if case.get("via_setter"):
        loss = WeightedProbabilityBasedSquaredError(nv, fp, fg, fh, prob_dists_q=qs)
        loss.set_weight_matrices(W)
    else:
        loss = WeightedProbabilityBasedSquaredError(nv, fp, fg, fh, prob_dists_q=qs, weight_matrices=W)
    return loss, fp, A, b, G, HP


def taylor_check(ctx, sub, site, case, f0, f1, g0, g1, H, h):
    """exact second-order identities on the implementation's outputs (evaluated in rational arithmetic)"""
    nv = len(h)
    hF = [ex(x) for x in h]; g0F = [ex(x) for x in g0]; g1F = [ex(x) for x in g1]
    HF = [[ex(H[a][c]) for c in range(nv)] for a in range(nv)]
    gh = sum(a * c for a, c in zip(g0F, hF))
    Hh = [sum(HF[a][c] * hF[c] for c in range(nv)) for a in range(nv)]
    hHh = sum(hF[a] * Hh[a] for a in range(nv))
    resid = ex(f1) - ex(f0) - gh - hHh / 2
    scale = abs(float(f1)) + abs(float(f0)) + abs(float(gh)) + abs(float(hHh))
    if abs(float(resid)) > 1e-9 * (1.0 + scale):
        ctx.violation(sub, site, "value-not-second-order-expansion-of-gradient-hessian",
                      "f(v+h) - f(v) - <g,h> - h'Hh/2 = %.3e (scale %.3e)" % (float(resid), scale), case)
    gs = max([abs(float(x)) for x in g0F + g1F + Hh] + [0.0])
    bad = [a for a in range(nv) if abs(float(g1F[a] - g0F[a] - Hh[a])) > 1e-9 * (1.0 + gs)]
    if bad:
        ctx.violation(sub, site, "gradient-increment-not-hessian", "g(v+h) - g(v) - H h differs at components %s" % bad[:5], case)
    asym = max([abs(H[a][c] - H[c][a]) for a in range(nv) for c in range(nv)] + [0.0])
    if asym > 1e-9 * (1.0 + gs):
        ctx.violation(sub, site, "hessian-not-symmetric", "max |H - H^T| = %.3e" % asym, case)


def chk_se_callables(ctx, case):
    m = ctx.get_model()
    site = "WeightedProbabilityBasedSquaredError"
    ns, mm, nv = case["ns"], case["m"], case["nv"]
    key = ("sec", ns, mm, nv, tuple(case["v"]), tuple(case["q"]), case.get("kind"))
    if case.get("kind") in ("asym", "int", "f32"):
        try:
            se_loss_from_case(case); raised = None
        except ValueError:
            raised = "ValueError"
        except Exception as e:
            raised = type(e).__name__
        ctx.count("se_callables", key=key, nontrivial=False, label="malformed-" + case["kind"])
        if raised != "ValueError":
            ctx.violation("se_callables", site + "._validate_weight_matrices", "error-kind",
                          "%s weight matrices must be rejected with ValueError, got %s" % (case["kind"], raised), case)
        return
    loss, fp, A, b, G, HP = se_loss_from_case(case)
    v = np.array(case["v"], dtype=np.float64); h = np.array(case["h"], dtype=np.float64)
    f0 = float(loss.value(v)); g0 = fl(loss.gradient(v)); H0 = np.array(loss.hessian(v), dtype=np.float64)
    p = np.concatenate([f(v) for f in fp])
    consistent = case.get("G") is None and case.get("HP") is None
    mv_, mg, mh = m_se_at(m, ns, mm, nv, fl(p), case["q"], fl(G), case.get("W"), fl(HP) if case.get("HP") is not None else None)
    ctx.count("se_callables", key=key, nontrivial=(ns * mm >= 4 and nv >= 2),
              label="m%d-%s-%s" % (mm, "I" if case.get("W") is None else ("Wzero" if not any(case["W"]) else "W"), "affine" if consistent else "formula"))
    sc = abs(float(mv_))
    if not rel_close(f0, mv_, TOL):
        ctx.violation("se_callables", site + ".value", "value", "value %r model %r" % (f0, float(mv_)), case)
    if not vec_close(g0, mg, TOL):
        ctx.violation("se_callables", site + ".gradient", "value", "gradient %s model %s" % (g0[:4], [float(x) for x in mg[:4]]), case)
    if not vec_close(fl(H0), mh, TOL):
        ctx.violation("se_callables", site + ".hessian", "value", "hessian differs from model (max diff %.3e)" % flow.maxdiff(fl(H0), [float(x) for x in mh]), case)
    if consistent:
        # the affine model itself (p computed by the model from A, b, v)
        av, ag, ah = m_se(m, ns, mm, nv, fl(A), fl(b), case["q"], case["v"], case.get("W"))
        if not (rel_close(f0, av, TOL) and vec_close(g0, ag, TOL) and vec_close(fl(H0), ah, TOL)):
            ctx.violation("se_callables", site, "affine-model", "value/gradient/Hessian differ from the affine model", case)
        f1 = float(loss.value(v + h)); g1 = fl(loss.gradient(v + h))
        taylor_check(ctx, "se_callables", site, case, f0, f1, g0, g1, H0.tolist(), fl(h))


def gen_se_callables(ctx, n):
    rng = ctx.rng
    cases = []
    for i in range(n):
        ns = rng.choice([1, 2, 2, 3, 4]); mm = rng.choice([2, 3, 3, 4, 5]); nv = rng.choice([1, 2, 3, 3, 4])
        N = ns * mm
        c = {"ns": ns, "m": mm, "nv": nv,
             "A": [dy(rng, -2, 2, 8) for _ in range(N * nv)], "b": [dy(rng, -1, 1, 8) for _ in range(N)],
             "q": [x for j in range(ns) for x in rand_q(rng, mm, rng.choice([10, 64, 100, 1000]))],
             "v": [dy(rng, -2, 2, 16) for _ in range(nv)], "h": [dy(rng, -2, 2, 16) for _ in range(nv)],
             "W": None, "G": None, "HP": None, "via_setter": rng.random() < 0.3}
        if rng.random() < 0.7:
            c["W"] = rand_wmats(rng, ns, mm)
        r = rng.random()
        if r < 0.2:
            c["G"] = [dy(rng, -2, 2, 8) for _ in range(N * nv)]
        elif r < 0.4:
            c["HP"] = [dy(rng, -1, 1, 4) for _ in range(nv * nv * N)]
        cases.append(c)
    for kind in ("asym", "int", "f32"):
        c = dict(cases[0]); c = {k: (list(v) if isinstance(v, list) else v) for k, v in c.items()}
        ns, mm = c["ns"], c["m"]
        W = [x for j in range(ns) for row in rand_sym(rng, mm) for x in row]
        if kind == "asym":
            W[1] = W[mm] + 1.0
        elif kind == "f32":
            c["wdtype"] = "float32"
        else:
            W = [float(int(x)) for x in W]; c["wdtype"] = "int64"
        c["W"] = W; c["kind"] = kind; c["G"] = None; c["HP"] = None
        cases.append(c)
    return cases


def sub_se_callables(ctx):
    cases = gen_se_callables(ctx, ctx.n(60, 600))
    ctx.sample("se_callables", cases[0])
    ctx.run_cases("se_callables", chk_se_callables, cases)


# ================================================================== se_qt
def spec_weights(m, ns, mm, step):
    """weights the mode denotes for THIS data (= what the model of the code installs, theorem C12_modes_effective).
       -> ('none',) | ('w', flat list) | ('err', code)"""
    mode = step["mode"]
    if mode == 0:
        return ("none",)
    if mode in (1, 5):
        return ("none",) if step.get("custom") is None else ("w", list(step["custom"]))
    out = []
    for j in range(ns):
        st, W = m_inv_weight(m, mode in (3, 4), mm, step["nd"][j], step["q"][j * mm:(j + 1) * mm])
        if st == "err":
            return ("err", W)
        out += W
    return ("w", out)


def se_option(step, mm, ns, fast):
    from quara.loss_function.weighted_probability_based_squared_error import WeightedProbabilityBasedSquaredErrorOption
    from quara.loss_function.standard_qtomography_based_weighted_probability_based_squared_error import (
        StandardQTomographyBasedWeightedProbabilityBasedSquaredErrorOption)
    cls = StandardQTomographyBasedWeightedProbabilityBasedSquaredErrorOption if fast else WeightedProbabilityBasedSquaredErrorOption
    ws = None
    if step["mode"] == 1 and step.get("custom") is not None:
        ws = [np.array(step["custom"][j * mm * mm:(j + 1) * mm * mm], dtype=np.float64).reshape(mm, mm) for j in range(ns)]
        if step.get("wview"):                      # weight matrices as non-contiguous / Fortran-ordered / transposed / read-only arrays
            ws = [relayout(w_, step["wview"] if isinstance(step["wview"], str) else "view") for w_ in ws]
    return cls(mode_weight=MODES[step["mode"]], weights=ws)


def parse_config(r, ns, mm):
    """-> (held option id or -1, W, E)"""
    held = int(r[0]); i = 1
    hw = int(r[i]); i += 1
    W = None
    if hw:
        W = r[i:i + ns * mm * mm]; i += ns * mm * mm
    he = int(r[i]); i += 1
    E = r[i:] if he else None
    return held, W, E


def held_oid(obj, opts):
    """identity (oid) of the option object the loss currently holds, -1 if none of this history's objects"""
    for oid, o in opts.items():
        if obj.option is o:
            return oid
    return -1


def same(impl, mod, tol=1e-7):
    if impl is None or mod is None:
        return impl is None and mod is None
    return vec_close(impl, mod, tol)


def se_state(obj, fast):
    w = None if not obj.weight_matrices else fl(np.array(obj.weight_matrices))
    e = None
    if fast and getattr(obj, "_extend_weight_matrix", None) is not None:
        e = fl(obj._extend_weight_matrix)
    return w, e


def strided(a):
    """the same numbers as a NON-CONTIGUOUS view (every second element / column of a bigger buffer)"""
    a = np.asarray(a, dtype=np.float64)
    if a.ndim == 1:
        buf = np.full(2 * a.shape[0], 7.0); buf[::2] = a
        return buf[::2]
    buf = np.full((a.shape[0], 2 * a.shape[1]), 7.0); buf[:, ::2] = a
    return buf[:, ::2]


def relayout(a, kind):
    """the same numbers in another memory layout / with other flags"""
    a = np.array(a, dtype=np.float64)
    if kind == "view":
        return strided(a)
    if kind == "fortran":
        return np.asfortranarray(a)
    if kind == "transposed":                     # a transposed view of the transposed copy: same numbers, F-ordered view
        return np.ascontiguousarray(a.T).T
    if kind == "readonly":
        a.setflags(write=False)
        return a
    return a


def variants_check(viol, case, k, objs, v, ref):
    """the same point handed over as a non-contiguous view / read-only array, validate=True, and the arrays RETURNED by
    gradient / hessian overwritten by the caller before the API is called again: results must not change
    objs: [(name, object, has_hessian)], ref: {name: (value, gradient)}"""
    vv = strided(v); vr = relayout(v, "readonly")
    for name, obj, has_h in objs:
        val0, grad0 = ref[name]
        sc = 1.0 + abs(val0)
        g_ret = obj.gradient(v)
        try:
            g_ret[...] = 123.0                   # the caller reuses the returned buffer
        except (ValueError, TypeError):
            pass
        h0 = None
        has_h = has_h and len(v) <= 8
        if has_h:
            h_ret = obj.hessian(v); h0 = fl(h_ret).copy() if hasattr(fl(h_ret), "copy") else list(fl(h_ret))
            try:
                h_ret[...] = 321.0
            except (ValueError, TypeError):
                pass
        for what, val, grad in (("array-layout-changes-result", float(obj.value(vv)), fl(obj.gradient(vv))),
                                ("read-only-point-changes-result", float(obj.value(vr)), fl(obj.gradient(vr))),
                                ("validate-changes-result", float(obj.value(v, validate=True)), fl(obj.gradient(v, validate=True))),
                                ("returned-array-aliases-internal-state", float(obj.value(v)), fl(obj.gradient(v)))):
            if abs(val - val0) > 1e-12 * sc or not vec_close(grad, grad0, 1e-12):
                viol(name, what, "step %d: value %r / gradient differ from the first plain call (value %r)" % (k, val, val0), case)
        if has_h and not vec_close(fl(obj.hessian(v)), h0, 1e-12):
            viol(name, "returned-array-aliases-internal-state", "step %d: Hessian changed after the caller overwrote the returned array" % k, case)


class Fired:
    """ctx.violation wrapper that remembers whether a violation was reported (to avoid reporting one defect twice)"""
    def __init__(self, ctx, sub):
        self.ctx = ctx; self.sub = sub; self.n = 0

    def __call__(self, site, sig, what, case):
        self.n += 1
        self.ctx.violation(self.sub, site, sig, what, case)


def chk_se_qt(ctx, case):
    """every configuration step is compared LOCALLY with the model of the code (Model/C12_Loss.v, the repaired code): from
    the object's own state before the call the model predicts weights and cached extension after the call; then the
    property's predicates are evaluated on the implementation's outputs (reported first, with their specific signature)"""
    from quara.loss_function.weighted_probability_based_squared_error import WeightedProbabilityBasedSquaredError
    from quara.loss_function.standard_qtomography_based_weighted_probability_based_squared_error import (
        StandardQTomographyBasedWeightedProbabilityBasedSquaredError)
    m = ctx.get_model()
    viol = Fired(ctx, "se_qt")
    e = get_exp(case["exp"]); qt = e["qt"]; ns, mm, nv = e["ns"], e["m"], e["nv"]; N = ns * mm
    A = fl(e["A"]); b = fl(e["b"])
    v = np.array(case["v"], dtype=np.float64); h = np.array(case["h"], dtype=np.float64)
    G = WeightedProbabilityBasedSquaredError(nv)
    Fs = StandardQTomographyBasedWeightedProbabilityBasedSquaredError(nv)
    gopts = {}; fopts = {}            # option OBJECTS of this history by identity: steps with the same oid hand in the same object
    last_data = None                  # data of the last configuration step
    w = quiet()
    try:
        for k, step in enumerate(case["steps"]):
            mode = step["mode"]
            oid = step.get("oid", k)   # (replays written before option identities existed: a new object per step)
            key = ("seqt", case["exp"], k, tuple(case["v"]), tuple(step["q"]), mode, tuple(s["mode"] for s in case["steps"][:k]))
            label = "%s-%s-%s%s" % (case["exp"].split("-")[0], MODES.get(mode, "setter"), "fresh" if k == 0 else "reused",
                                    "" if step.get("opt", "new") == "new" else "-%s-option-%s-data" % (step["opt"], step.get("dat", "new")))
            data = [(int(step["nd"][j]), np.array(step["q"][j * mm:(j + 1) * mm], dtype=np.float64)) for j in range(ns)]
            if case.get("layout", "plain") != "plain":   # empirical distributions as non-contiguous views / read-only arrays
                data = [(n_, relayout(q_, case["layout"])) for n_, q_ in data]
            data_changed = last_data is not None and last_data != (list(step["nd"]), list(step["q"]))
            if mode != 5:
                last_data = (list(step["nd"]), list(step["q"]))
            spec = spec_weights(m, ns, mm, step)
            if spec[0] == "err":
                viol("WeightedProbabilityBasedSquaredError._set_weights_by_mode", "model-mismatch:certificate",
                     "step %d: the exact inverse of the regularised covariance block was not certified (code %s)" % (k, spec[1]), case)
                return
            has_c = 1 if (mode in (1, 5) and step.get("custom") is not None) else 0
            has_k = 1 if mode in (2, 3, 4) else 0
            stepq = (list(step["custom"]) if has_c else []) + (list(spec[1]) if has_k else [])
            try:
                if mode != 5 and oid not in gopts:
                    go = se_option(step, mm, ns, False); fo = se_option(step, mm, ns, True)
                    gopts[oid] = go; fopts[oid] = fo
                opts = [None, None] if mode == 5 else [gopts[oid], fopts[oid]]
            except ValueError:
                # the option class no longer accepts this mode: nothing to take effect
                ctx.count("se_qt", key=key, nontrivial=False, label=label + "-mode-rejected-by-option")
                if mode != 4:
                    viol("WeightedProbabilityBasedSquaredErrorOption", "model-mismatch:option", "mode %s rejected by the option class" % MODES.get(mode), case)
                continue
            raised = []; mism = []; prev_gw = None; same_object = False
            for obj, fast, opt in ((G, False, opts[0]), (Fs, True, opts[1])):
                w0, e0 = se_state(obj, fast)
                held0 = held_oid(obj, fopts if fast else gopts)
                if not fast:
                    prev_gw = w0
                    same_object = mode != 5 and held0 == oid          # the loss is handed the option object it already holds
                r_c = m.call("c12.config_from", [1 if fast else 0, ns, mm, 0 if w0 is None else 1, 0 if e0 is None else 1, held0,
                                                 mode, max(oid, 0), has_c, has_k],
                             (w0 or []) + (e0 or []) + stepq)
                held_c, Wc, Ec = parse_config(r_c, ns, mm)
                try:
                    if mode == 5:
                        ws = None if step.get("custom") is None else [np.array(step["custom"][j * mm * mm:(j + 1) * mm * mm], dtype=np.float64).reshape(mm, mm) for j in range(ns)]
                        obj.set_prob_dists_q([d[1] for d in data])
                        obj.set_weight_matrices(ws)
                    else:
                        obj.set_from_standard_qtomography_option_data(qt, opt, data, True, not fast)
                except ValueError as exc:
                    raised.append("%s class: ValueError: %s" % ("fast" if fast else "generic", str(exc)[:160]))
                    continue
                w1, e1 = se_state(obj, fast)
                if held_oid(obj, fopts if fast else gopts) != held_c:
                    mism.append("%s-held-option" % ("fast" if fast else "generic"))
                if not same(w1, Wc):
                    mism.append("%s-weights" % ("fast" if fast else "generic"))
                if fast and not same(e1, Ec):
                    mism.append("fast-cached-extension")
            ctx.count("se_qt", key=key, nontrivial=True, label=label + ("-raises" if raised else ""))
            if raised:
                # property: every accepted mode takes effect for any number of outcomes (the model of the code never raises here)
                if mode in (2, 3, 4) and mm != 2:
                    viol(SITE_SE_MODE, "inverse-covariance-raises-for-more-than-2-outcomes",
                         "mode %s with %d outcomes per schedule raises (%s)" % (MODES[mode], mm, "; ".join(raised)), case)
                else:
                    viol("set_from_standard_qtomography_option_data", "model-mismatch:error-branch",
                         "step %d mode %s: implementation raises, model of the code does not (%s)" % (k, MODES.get(mode, "set_weight_matrices"), "; ".join(raised)), case)
                return
            gw, _ = se_state(G, False)
            fw, fe = se_state(Fs, True)
            q = list(step["q"])
            g_val = float(G.value(v)); g_grad = fl(G.gradient(v)); g_hess = np.array(G.hessian(v), dtype=np.float64)
            f_val = float(Fs.value(v)); f_grad = fl(Fs.gradient(v))
            try:
                Fs.hessian(v); hess_raises = False
            except NotImplementedError:
                hess_raises = True
            if not hess_raises:
                viol(SITE_SE_FAST, "model-mismatch:hessian-implemented", "fast hessian no longer raises NotImplementedError", case)
            if k == 0:
              variants_check(viol, case, k, [("WeightedProbabilityBasedSquaredError", G, True), ("StandardQTomographyBasedWeightedProbabilityBasedSquaredError", Fs, False)],
                             v, {"WeightedProbabilityBasedSquaredError": (g_val, g_grad), "StandardQTomographyBasedWeightedProbabilityBasedSquaredError": (f_val, f_grad)})
            # ---- (a) formulas with the implementation's own current weights / cache (exact dyadic inputs)
            mv_, mg, mh = m_se(m, ns, mm, nv, A, b, q, case["v"], gw)
            if not (rel_close(g_val, mv_, TOL) and vec_close(g_grad, mg, TOL) and vec_close(fl(g_hess), mh, TOL)):
                viol("WeightedProbabilityBasedSquaredError", "model-mismatch:value",
                     "generic value/gradient/Hessian differ from the model at the object's own weights: %r vs %r" % (g_val, float(mv_)), case)
            fv, fg = m_se_fast(m, N, nv, A, b, q, case["v"], fe)
            if not (rel_close(f_val, fv, TOL) and vec_close(f_grad, fg, TOL)):
                viol("StandardQTomographyBasedWeightedProbabilityBasedSquaredError", "model-mismatch:value",
                     "fast value/gradient differ from the model at the object's own cache: %r vs %r" % (f_val, float(fv)), case)
            # exact derivative identities on the implementation's outputs
            taylor_check(ctx, "se_qt", "WeightedProbabilityBasedSquaredError", case, g_val, float(G.value(v + h)), g_grad, fl(G.gradient(v + h)), g_hess.tolist(), fl(h))
            # ---- (b) the property: the mode takes effect, fast = generic
            n0 = viol.n
            # (the certified exact inverse has huge numerators: the formula is evaluated at its float rounding, 1e-16 relative)
            Ws = None if spec[0] == "none" else [float(x) for x in spec[1]]
            sv, sg, sh = (mv_, mg, mh) if Ws == gw else m_se(m, ns, mm, nv, A, b, q, case["v"], Ws)
            ok_g = rel_close(g_val, sv, 1e-6) and vec_close(g_grad, sg, 1e-6) and vec_close(fl(g_hess), sh, 1e-6)
            if not ok_g:
                unchanged = same(gw, prev_gw)               # the call left the weights as they were
                if same_object and unchanged and (mode == 1 or (mode in (2, 3, 4) and data_changed)):
                    sig = "same-option-object-weights-not-recomputed-for-current-data"
                elif mode == 0 and unchanged and gw is not None:
                    sig = "identity-mode-keeps-previous-weights"
                elif mode == 4 and unchanged:
                    sig = "alias-mode-unbiased_inverse_covariance-ignored"
                elif "generic-weights" in mism:
                    sig = "mode-not-effective"                   # weights were installed, but not those the mode denotes
                else:
                    sig = "value-neq-formula"
                viol(SITE_SE_MODE, sig,
                     "step %d (%s, %s%s): generic value %r but the formula with the weights this mode denotes for the CURRENT data gives %r" % (
                         k, MODES.get(mode), "fresh" if k == 0 else "reused", ", same option object as held" if same_object else "", g_val, float(sv)), case)
            if not (rel_close(f_val, g_val, 1e-7) and vec_close(f_grad, g_grad, 1e-7)):
                viol(SITE_SE_FAST, "extended-weights-stale" if "fast-cached-extension" in mism else "fast-neq-generic",
                     "step %d (%s, %s object): fast value %r, generic value %r for identical data / weights / mode (formula: %r)" % (
                         k, MODES.get(mode, "set_weight_matrices"), "fresh" if k == 0 else "reused", f_val, g_val, float(sv)), case)
            # ---- (c) object state vs the model of the code (only if the property predicates found nothing: same defect otherwise)
            if mism and viol.n == n0:
                viol("set_from_standard_qtomography_option_data", "model-mismatch:" + mism[0],
                     "step %d mode %s: state after the call differs from the model of the code (%s)" % (k, MODES.get(mode, "set_weight_matrices"), ", ".join(mism)), case)
    finally:
        w.__exit__(None, None, None)


def rand_point(rng, e, outside):
    sc = 2.0 if outside else 0.125
    return [float(x) + sc * dy(rng, -1, 1, 64) for x in e["v0"]]


def gen_step(rng, e, mode):
    ns, mm = e["ns"], e["m"]
    nd = [rng.choice([100, 400, 1000, 10000]) if rng.random() < 0.7 else rng.randint(10, 5000) for _ in range(ns)]
    q = [x for j in range(ns) for x in rand_q(rng, mm, nd[j])]
    st = {"mode": mode, "nd": nd, "q": q, "custom": None}
    if mode in (1, 5):
        st["custom"] = rand_wmats(rng, ns, mm)
        st["wview"] = rng.choice(["view", "fortran", "transposed", "readonly"]) if rng.random() < 0.4 else False
    return st


WITNESS_SE = [
    # the histories of the Coq witnesses (Props/C12.v, C12_before_fix_*_refuted) replayed on the real classes: each of them
    # is a regression test for one repair in /verif/fixes
    {"exp": "povmt-3-T", "modes": [2]},            # C12_before_fix_inverse_covariance_shape_refuted
    {"exp": "qst-4-F", "modes": [3]},              # ... 4 outcomes, unbiased
    {"exp": "povmt-5-F", "modes": [4]},            # ... 5 outcomes, alias spelling
    {"exp": "qst-2-T", "modes": [2]},              # C12_before_fix_fast_path_weights_stale_refuted (fresh object)
    {"exp": "qst-2-T", "modes": [2, 2]},           # ... reused object
    {"exp": "qst-2-T", "modes": [4]},              # C12_before_fix_alias_mode_ignored_refuted
    {"exp": "qst-2-T", "modes": [1, 0]},           # C12_before_fix_identity_mode_keeps_old_weights_refuted
    {"exp": "qst-2-T", "modes": [2, 0]},           # ... identity after an inverse mode
    {"exp": "qst-2-T", "modes": [1, 5]},           # setter after configuration
    {"exp": "qst-2-T", "modes": [0, 5, 0]},        # setter on an unweighted configured object, then identity again
    # option-object re-use (seeded change C12-2; LossMinimizationEstimator.calc_estimate_sequence hands ONE option object to
    # every data set of a sequence): the weights must be those of the CURRENT data
    {"exp": "qst-2-T", "plan": [2, (2, "same", "new")]},
    {"exp": "qst-2-F", "plan": [3, (3, "same", "new"), (3, "same", "same")]},
    {"exp": "povmt-3-F", "plan": [4, (4, "same", "new")]},
    {"exp": "qst-4-F", "plan": [2, (2, "same", "new"), (2, "equal", "new")]},
    {"exp": "qpt-2-T", "plan": [2, 5, (2, "same", "same")]},       # setter in between, then the same object and the same data again
    {"exp": "qst-2-F", "plan": [1, 5, (1, "same", "new")]},        # custom, setter, the same custom option object again
    {"exp": "qmpt-2-T", "plan": [3, (3, "equal", "new")]},
    # boundary values of the weight matrices: the zero matrix for one schedule / for all schedules
    {"exp": "qmpt3-2-T", "plan": [3]},          # 3-outcome instrument with the equality constraint parametrised away (one quick-tier case)
    {"exp": "qst-2-T", "plan": [1], "zero": "one"},
    {"exp": "povmt-3-T", "plan": [1, 5], "zero": "all"},
]


def build_se_steps(rng, e, plan):
    """plan entries: mode | (mode, opt, dat) with opt in new / same (the SAME option object as the last configuration step) /
    equal (a distinct object with the same mode and weights), dat in new / same (the data of the last configuration step)"""
    steps = []; last = None; next_oid = 0
    for p in plan:
        mode, opt, dat = (p, "new", "new") if isinstance(p, int) else tuple(p)
        if opt in ("same", "equal") and last is not None:
            st = gen_step(rng, e, last["mode"]); st["custom"] = None if last["custom"] is None else list(last["custom"])
            if dat == "same":
                st["nd"] = list(last["nd"]); st["q"] = list(last["q"])
            if opt == "same":
                st["oid"] = last["oid"]
            else:
                st["oid"] = next_oid; next_oid += 1
        else:
            opt, dat = "new", "new"
            st = gen_step(rng, e, mode)
            if mode == 5:
                st["oid"] = -1
            else:
                st["oid"] = next_oid; next_oid += 1
        st["opt"] = opt; st["dat"] = dat
        if st["mode"] != 5:
            last = st
        steps.append(st)
    return steps


def gen_se_qt(ctx, n):
    rng = ctx.rng
    exps = EXP_QUICK if ctx.quick else EXP_QUICK + EXP_MORE
    cases = []
    plans = [dict(w) for w in WITNESS_SE]
    if not ctx.quick:     # (44 variables: expensive, a handful of cases only)
        plans += [{"exp": "qmpt3-2-F", "plan": [2, (2, "same", "new")]}, {"exp": "qmpt3-2-T", "plan": [1, 0]}, {"exp": "qmpt3-3-T", "plan": [4]}]
    for i in range(n):
        name = exps[i % len(exps)]
        L = rng.choice([1, 2, 2, 3])
        plan = []
        for t in range(L):
            if t > 0 and rng.random() < 0.45:
                # re-use of option objects: what LossMinimizationEstimator.calc_estimate_sequence does for every data set
                plan.append((0, rng.choice(["same", "same", "equal"]), "same" if rng.random() < 0.25 else "new"))
            else:
                # the plain setter (5) only on an already configured object
                plan.append(rng.choice([0, 1, 1, 2, 2, 3, 3, 4] + ([5] if t > 0 else [])))
        plans.append({"exp": name, "plan": plan})
    for pl in plans:
        e = get_exp(pl["exp"])
        steps_ = build_se_steps(rng, e, pl.get("plan", pl.get("modes")))
        if pl.get("zero"):
            mm2 = e["m"] * e["m"]
            for st in steps_:
                if st.get("custom") is not None:
                    st["custom"] = [0.0] * len(st["custom"]) if pl["zero"] == "all" else [0.0] * mm2 + list(rand_wmats(rng, e["ns"], e["m"]))[mm2:]
        c = {"exp": pl["exp"], "steps": steps_, "layout": rng.choice(["view", "readonly"]) if rng.random() < 0.4 else "plain",
             "v": rand_point(rng, e, rng.random() < 0.5), "h": [dy(rng, -1, 1, 16) for _ in range(e["nv"])]}
        cases.append(c)
    return cases


def sub_se_qt(ctx):
    cases = gen_se_qt(ctx, ctx.n(32, 600))
    ctx.sample("se_qt", {k: (v if k != "steps" else [dict(s, q=s["q"][:4], custom=None) for s in v]) for k, v in cases[1].items()})
    ctx.run_cases("se_qt", chk_se_qt, cases)


# ================================================================== relative entropy (callables)
def in_band(ps, qs, epsq=EPS, epsp=EPS):
    """any clipping decision within the ambiguity band of its threshold?"""
    for p, q in zip(ps, qs):
        # EXACTLY at a threshold (q == eps_q or p == eps_p as floats) is a deterministic decision and IS compared
        if q != epsq and abs(q - epsq) < 1e-12:
            return True
        if q >= epsq:
            if p != epsp and abs(p - epsp) < 1e-12:
                return True
            pr = max(p, epsp)
            if abs(max(q, epsq) / pr - epsp) < 1e-12:
                return True
    return False


def re_loss_from_case(case, fast_like=False):
    from quara.loss_function.weighted_relative_entropy import WeightedRelativeEntropy
    ns, m, nv = case["ns"], case["m"], case["nv"]
    N = ns * m
    A = np.array(case["A"], dtype=np.float64).reshape(N, nv); b = np.array(case["b"], dtype=np.float64)
    G = np.array(case["G"], dtype=np.float64).reshape(N, nv) if case.get("G") is not None else A
    HP = np.array(case["HP"], dtype=np.float64).reshape(nv, nv, N) if case.get("HP") is not None else np.zeros((nv, nv, N))
    fp = [(lambda j: (lambda var: A[j * m:(j + 1) * m] @ var + b[j * m:(j + 1) * m]))(j) for j in range(ns)]
    fg = [(lambda j: (lambda al, var: np.array(G[j * m:(j + 1) * m, al], dtype=np.float64)))(j) for j in range(ns)]
    fh = [(lambda j: (lambda al, be, var: np.array(HP[al, be, j * m:(j + 1) * m], dtype=np.float64)))(j) for j in range(ns)]
    q = np.array(case["q"], dtype=np.float64)
    qs = [q[j * m:(j + 1) * m] for j in range(ns)]
    ws = None if case.get("w") is None else [float(x) for x in case["w"]]
    if case.get("via_setter"):
        loss = WeightedRelativeEntropy(nv, fp, fg, fh, prob_dists_q=qs)
        loss.set_weights(ws)
    else:
        loss = WeightedRelativeEntropy(nv, fp, fg, fh, prob_dists_q=qs, weights=ws)
    return loss, fp, A, b, G, HP


def chk_re_callables(ctx, case):
    m = ctx.get_model()
    site = "WeightedRelativeEntropy"
    ns, mm, nv = case["ns"], case["m"], case["nv"]; N = ns * mm
    loss, fp, A, b, G, HP = re_loss_from_case(case)
    v = np.array(case["v"], dtype=np.float64)
    w = quiet()
    try:
        f0 = float(loss.value(v)); g0 = fl(loss.gradient(v)); H0 = fl(loss.hessian(v))
    finally:
        w.__exit__(None, None, None)
    p = np.concatenate([f(v) for f in fp])
    zs = [ns, mm, nv, 0 if case.get("w") is None else 1, 0 if case.get("HP") is None else 1]
    qs = [EPS, EPS] + fl(p) + list(case["q"]) + fl(G) + ([] if case.get("w") is None else list(case["w"])) + ([] if case.get("HP") is None else fl(HP))
    c, a, mg, mh = m_re_parse(m.call("c12.re_at", zs, qs), N, nv)
    band = in_band(fl(p), case["q"])
    region = "clipped" if any(pp <= EPS and qq >= EPS for pp, qq in zip(fl(p), case["q"])) else "unclipped"
    ctx.count("re_callables", key=("rec", ns, mm, nv, tuple(case["v"]), tuple(case["q"])), nontrivial=(not band and N >= 4 and nv >= 2),
              label="m%d-%s-%s%s" % (mm, wlab(case.get("w")), region, "-inband" if band else ""))
    if band:
        return
    mval, mag = ln_sum(c, a)
    if abs(f0 - mval) > TOL * (1.0 + mag):
        ctx.violation("re_callables", site + ".value", "value", "value %r, model terms give %r" % (f0, mval), case)
    else:
        # candidates for the in-Coq evaluation of the logarithms (ln_coq_check)
        lst = getattr(ctx, "_ln_cases", None)
        if lst is not None and len(lst) < ctx.n(4, 60) and any(ci != 0 for ci in c):
            lst.append({"c": [str(x) for x in c], "a": [str(x) for x in a], "f": float(f0).hex(), "mag": mag, "case": case})
    if not vec_close(g0, mg, TOL):
        ctx.violation("re_callables", site + ".gradient", "value", "gradient %s model %s" % (g0[:4], [float(x) for x in mg[:4]]), case)
    if not vec_close(H0, mh, TOL):
        ctx.violation("re_callables", site + ".hessian", "value", "hessian differs from model (max diff %.3e)" % flow.maxdiff(H0, [float(x) for x in mh]), case)


def gen_re_callables(ctx, n):
    rng = ctx.rng
    cases = []
    for i in range(n):
        ns = rng.choice([1, 2, 2, 3]); mm = rng.choice([2, 3, 3, 4, 5]); nv = rng.choice([1, 2, 3, 3, 4])
        N = ns * mm
        outside = rng.random() < 0.4
        A = [dy(rng, -1, 1, 8) for _ in range(N * nv)]
        v = [dy(rng, -1, 1, 16) for _ in range(nv)]
        # offsets chosen so that p = A v + b is a dyadic number of the wanted sign
        Av = np.array(A).reshape(N, nv) @ np.array(v)
        tgt = [(dy(rng, -16, 64, 64) if outside else dy(rng, 2, 64, 64)) for _ in range(N)]
        if outside and rng.random() < 0.5:
            tgt[rng.randrange(N)] = 0.0                    # exactly zero predicted probability
        b = [float(t - x) for t, x in zip(tgt, Av)]
        q = [x for j in range(ns) for x in rand_q(rng, mm, rng.choice([10, 64, 100, 1000]))]
        if rng.random() < 0.15:
            q[rng.randrange(N)] = 5e-11                    # below eps_q, not zero
        if rng.random() < 0.1:
            q[rng.randrange(N)] = EPS                      # exactly at the threshold eps_q
        c = {"ns": ns, "m": mm, "nv": nv, "A": A, "b": b, "q": q, "v": v, "w": None, "G": None, "HP": None, "via_setter": rng.random() < 0.3}
        if rng.random() < 0.6:
            c["w"] = rand_wvec(rng, ns)
        r = rng.random()
        if r < 0.2:
            c["G"] = [dy(rng, -2, 2, 8) for _ in range(N * nv)]
        elif r < 0.45:
            c["HP"] = [dy(rng, -1, 1, 4) for _ in range(nv * nv * N)]
        cases.append(c)
    return cases


def coq_real(fr):
    fr = Fraction(fr)
    return "(IZR (%d) / IZR %d)" % (fr.numerator, fr.denominator)


def ln_coq_check(ctx, lst):
    """the relative-entropy VALUE with the logarithm evaluated INSIDE Coq: for each recorded case the goal
         Rabs (sum_i c_i * ln a_i - value reported by quara) <= 1e-9 (1 + sum |c_i ln a_i|)
    (c_i, a_i = the exact rationals the extracted model reports, theorem C12_re_value_terms; the value as its exact dyadic) is
    proved by coq-interval's `interval` tactic (100-bit floating-point interval arithmetic, no trust in Python's decimal ln)"""
    import os, re, subprocess
    import runner
    if not lst:
        return
    d = os.path.join(getattr(ctx, "scratch", os.path.join(runner.V, "build", ctx.prop_id)), "ln")
    os.makedirs(d, exist_ok=True)
    alive = list(range(len(lst)))
    for attempt in range(4):
        lines = ["From Coq Require Import Reals.", "From Interval Require Import Tactic.", "Open Scope R_scope.", ""]
        pos = {}
        for i in alive:
            r = lst[i]
            terms = " + ".join("%s * ln %s" % (coq_real(ci), coq_real(ai)) for ci, ai in zip(r["c"], r["a"]) if Fraction(ci) != 0)
            tol = Fraction(1, 10 ** 9) * (1 + Fraction(*float(r["mag"]).as_integer_ratio()))
            pos[len(lines) + 1] = i
            lines.append("Lemma ln_case_%d : Rabs (%s - %s) <= %s." % (i, terms, coq_real(Fraction(*float.fromhex(r["f"]).as_integer_ratio())), coq_real(tol)))
            lines.append("Proof. interval with (i_prec 100). Qed.")
        src = os.path.join(d, "LnCases.v")
        open(src, "w").write("\n".join(lines) + "\n")
        r_ = subprocess.run(["timeout", "300", "coqc", src], capture_output=True, text=True, cwd=d)
        if r_.returncode == 0:
            break
        m_ = re.search(r"line (\d+), characters", r_.stdout + r_.stderr)
        bad = None
        if m_:
            ln = int(m_.group(1))
            bad = pos.get(ln, pos.get(ln - 1))
        if bad is None:
            ctx.violation("re_callables", "ln_coq_check", "coq-interval-run-failed", (r_.stdout + r_.stderr)[-300:], {"n": len(lst)}, no_input=True)
            return
        ctx.violation("re_callables", "WeightedRelativeEntropy.value", "value-vs-coq-interval-ln",
                      "Coq (interval, 100 bits) refutes |sum c_i ln a_i - value| <= 1e-9 (1 + mag) for value %r" % float.fromhex(lst[bad]["f"]), lst[bad]["case"])
        alive.remove(bad)
    for i in alive:
        ctx.count("re_callables", key=("lncoq", i, lst[i]["f"]), nontrivial=True, label="ln-inside-coq")


def sub_re_callables(ctx):
    cases = gen_re_callables(ctx, ctx.n(60, 600))
    ctx.sample("re_callables", cases[0])
    ctx._ln_cases = []
    ctx.run_cases("re_callables", chk_re_callables, cases)
    lst, ctx._ln_cases = ctx._ln_cases, None
    ln_coq_check(ctx, lst)


# ================================================================== relative entropy through the tomography configuration
def re_state(obj):
    w = None if obj.weights is None else [float(x) for x in obj.weights]
    ew = getattr(obj, "_extend_weights", None)
    return w, (None if ew is None else fl(ew))


def chk_re_qt(ctx, case):
    from quara.loss_function.weighted_relative_entropy import WeightedRelativeEntropy, WeightedRelativeEntropyOption
    from quara.loss_function.standard_qtomography_based_weighted_relative_entropy import (
        StandardQTomographyBasedWeightedRelativeEntropy, StandardQTomographyBasedWeightedRelativeEntropyOption)
    m = ctx.get_model()
    viol = Fired(ctx, "re_qt")
    e = get_exp(case["exp"]); qt = e["qt"]; ns, mm, nv = e["ns"], e["m"], e["nv"]; N = ns * mm
    A = fl(e["A"]); b = fl(e["b"])
    v = np.array(case["v"], dtype=np.float64); h = np.array(case["h"], dtype=np.float64)
    ctor_w = case.get("ctor_w")
    G = WeightedRelativeEntropy(nv, weights=None if ctor_w is None else list(ctor_w))
    Fs = StandardQTomographyBasedWeightedRelativeEntropy(nv, weights=None if ctor_w is None else list(ctor_w))
    p = e["A"] @ v + e["b"]
    gopts = {}; fopts = {}            # option OBJECTS of this history by identity (same oid = same object handed in again)
    wq = quiet()
    try:
        for k, step in enumerate(case["steps"]):
            q = list(step["q"])
            oid = step.get("oid", k)
            data = [(int(step["nd"][j]), np.array(q[j * mm:(j + 1) * mm], dtype=np.float64)) for j in range(ns)]
            if case.get("layout", "plain") != "plain":
                data = [(n_, relayout(q_, case["layout"])) for n_, q_ in data]
            ws = step.get("w")
            kind = step["kind"]          # "option" | "setter"
            w0f, ew0f = re_state(Fs)
            held0 = held_oid(Fs, fopts)
            # model of the code (repaired), from the fast object's own state before the call
            r = m.call("c12.config_re_from", [ns, mm, 0 if w0f is None else 1, 0 if ew0f is None else 1, held0,
                                               1 if kind == "option" else 2, max(oid, 0), 0 if ws is None else 1, 0 if ws is None else 1],
                       (w0f or []) + (ew0f or []) + ([] if ws is None else list(ws)))
            held_c = int(r[0]); r = r[1:]
            hw = int(r[0]); mw = r[1:1 + ns] if hw else None
            sel = int(r[1 + (ns if hw else 0)]); mew = r[2 + (ns if hw else 0):] if sel == 1 else None
            if kind == "option":
                if oid not in gopts:
                    gopts[oid] = WeightedRelativeEntropyOption("identity" if ws is None else "custom", weights=None if ws is None else list(ws))
                    fopts[oid] = StandardQTomographyBasedWeightedRelativeEntropyOption("identity" if ws is None else "custom", weights=None if ws is None else list(ws))
                G.set_from_standard_qtomography_option_data(qt, gopts[oid], data, True, True)
                Fs.set_from_standard_qtomography_option_data(qt, fopts[oid], data, True, False)
            else:
                G.set_prob_dists_q([d[1] for d in data]); Fs.set_prob_dists_q([d[1] for d in data])
                G.set_weights(None if ws is None else list(ws)); Fs.set_weights(None if ws is None else list(ws))
            spec_w = ws                   # what the option / setter asks for (None = identity) = the model's weights (C12_re_modes_effective)
            band = in_band(fl(p), q)
            inside = min(fl(p)) > 0.05
            ctx.count("re_qt", key=("reqt", case["exp"], k, tuple(case["v"]), tuple(q), kind, None if ws is None else tuple(ws)),
                      nontrivial=not band, label="%s-%s-%s-%s%s%s" % (case["exp"].split("-")[0], kind, wlab(ws), "inside" if inside else "outside", "-inband" if band else "",
                                                                      "" if step.get("opt", "new") == "new" else "-%s-option" % step["opt"]))
            gw, _ = re_state(G); fw, few = re_state(Fs)
            if not gw:
                gw = None
            try:
                f_val = float(Fs.value(v)); f_grad = fl(Fs.gradient(v)); f_err = None
            except AttributeError:
                f_err = "AttributeError"; f_val = None; f_grad = None
            # ---- object state after the call vs the model of the code
            mism = []
            if held_oid(Fs, fopts) != held_c:
                mism.append("fast-held-option %d, model %d" % (held_oid(Fs, fopts), held_c))
            if not same(gw, spec_w, 1e-12):
                mism.append("generic-weights %s, model %s" % (gw, spec_w))
            if not same(fw, mw, 1e-12):
                mism.append("fast-weights %s, model %s" % (fw, mw))
            if sel == 2 or (f_err is not None) or (fw is not None and not same(few, mew, 1e-12)):
                mism.append("fast-extend-weights (model sel=%d, implementation %s)" % (sel, f_err or "ok"))
            if band:
                if mism:
                    viol("WeightedRelativeEntropy", "model-mismatch:state", "step %d (%s): %s" % (k, kind, "; ".join(mism)), case)
                    return
                continue
            g_val = float(G.value(v)); g_grad = fl(G.gradient(v)); g_hess = fl(G.hessian(v))
            c, a, mg, mh = m_re_parse(m.call("c12.re", [ns, mm, nv, 0 if gw is None else 1], [EPS, EPS] + A + b + q + list(case["v"]) + ([] if gw is None else gw)), N, nv)
            mval, mag = ln_sum(c, a)
            if abs(g_val - mval) > TOL * (1.0 + mag) or not vec_close(g_grad, mg, TOL) or not vec_close(g_hess, mh, TOL):
                viol("WeightedRelativeEntropy", "model-mismatch:value",
                     "generic value/gradient/Hessian differ from the model at the object's own weights: %r vs %r" % (g_val, mval), case)
            if f_err is None:
                use = None if fw is None else few
                rr = m.call("c12.re_fast", [N, nv, 0 if use is None else 1], [EPS, EPS] + A + b + q + list(case["v"]) + ([] if use is None else use))
                fc, fa, fg, _ = m_re_parse(rr, N, nv, hess=False)
                fval, fmag = ln_sum(fc, fa)
                if abs(f_val - fval) > TOL * (1.0 + fmag) or not vec_close(f_grad, fg, TOL):
                    viol("StandardQTomographyBasedWeightedRelativeEntropy", "model-mismatch:value",
                         "fast value/gradient differ from the model at the object's own cache: %r vs %r" % (f_val, fval), case)
                try:
                    Fs.hessian(v)
                    viol("StandardQTomographyBasedWeightedRelativeEntropy", "model-mismatch:hessian-implemented", "fast hessian no longer raises", case)
                except NotImplementedError:
                    pass
            if f_err is None and k == 0:
                variants_check(viol, case, k, [("WeightedRelativeEntropy", G, True), ("StandardQTomographyBasedWeightedRelativeEntropy", Fs, False)],
                               v, {"WeightedRelativeEntropy": (g_val, g_grad), "StandardQTomographyBasedWeightedRelativeEntropy": (f_val, f_grad)})
            # ---- the property: the configured weights take effect; fast = generic
            n0 = viol.n
            sc_, sa, sg, sh = m_re_parse(m.call("c12.re", [ns, mm, nv, 0 if spec_w is None else 1], [EPS, EPS] + A + b + q + list(case["v"]) + ([] if spec_w is None else list(spec_w))), N, nv)
            sval, smag = ln_sum(sc_, sa)
            if abs(g_val - sval) > 1e-8 * (1.0 + smag) or not vec_close(g_grad, sg, 1e-8) or not vec_close(g_hess, sh, 1e-8):
                wrong_w = not same(gw, spec_w, 1e-12)
                viol(SITE_RE_MODE, "value-neq-formula" if not wrong_w else ("custom-weights-ignored" if spec_w is not None else "identity-mode-keeps-previous-weights"),
                     "step %d (%s): generic value %r, weighted relative entropy with the configured weights %s is %r" % (k, kind, g_val, None if spec_w is None else list(spec_w)[:4], sval), case)
            if f_err is not None:
                viol(SITE_RE_FAST, "extend-weights-not-refreshed",
                     "step %d (%s): value() of the configured fast object raises AttributeError (_extend_weights never built)" % (k, kind), case)
            elif abs(f_val - g_val) > 1e-8 * (1.0 + smag) or not vec_close(f_grad, g_grad, 1e-8):
                stale = fw is not None and not same(few, m.call("c12.ew_of", [ns, mm], fw), 1e-12)
                sig = "extend-weights-not-refreshed" if stale else "fast-neq-generic"
                viol(SITE_RE_FAST, sig, "step %d (%s): fast value %r generic value %r for identical data and weights" % (k, kind, f_val, g_val), case)
            if mism and viol.n == n0:
                viol("WeightedRelativeEntropy", "model-mismatch:state", "step %d (%s): %s" % (k, kind, "; ".join(mism)), case)
            # ---- derivative consistency on the implementation's outputs (unclipped interior points only)
            if inside and all(qq == 0.0 or qq >= 1e-6 for qq in q):
                wsum = sum((1.0 if gw is None else gw[j]) * sum(q[j * mm:(j + 1) * mm]) for j in range(ns))
                if not np.any(e["b"]):
                    # p is linear in v: f(t v) = f(v) - (sum w q) ln t  =>  <g, v> = -sum w q  and  H v = -g   (Euler)
                    gv = float(np.dot(g_grad, v)); Hv = np.array(g_hess).reshape(nv, nv) @ v
                    if abs(gv + wsum) > 1e-8 * (1.0 + abs(wsum)) or not vec_close(fl(Hv), [-x for x in g_grad], 1e-8):
                        viol("WeightedRelativeEntropy", "euler-identity", "<g,v> = %r, -sum w q = %r" % (gv, -wsum), case)
                t = 2.0 ** -14
                hs = 0.25 * h
                fd = (float(G.value(v + t * hs)) - float(G.value(v - t * hs))) / (2 * t)
                gh = float(np.dot(g_grad, hs))
                gsc = float(np.sum(np.abs(np.array(g_grad) * hs))) + abs(g_val)
                if abs(fd - gh) > 1e-5 * (1.0 + gsc):
                    viol("WeightedRelativeEntropy", "gradient-not-derivative-of-value", "central difference %r, <g,h> = %r" % (fd, gh), case)
                fdg = (np.array(fl(G.gradient(v + t * hs))) - np.array(fl(G.gradient(v - t * hs)))) / (2 * t)
                Hh = np.array(g_hess).reshape(nv, nv) @ hs
                if not vec_close(fl(fdg), fl(Hh), 1e-5, scale=float(np.max(np.abs(g_grad))) + float(np.max(np.abs(Hh)))):
                    viol("WeightedRelativeEntropy", "hessian-not-derivative-of-gradient", "central difference of the gradient differs from H h", case)
    finally:
        wq.__exit__(None, None, None)


WITNESS_RE = [
    {"exp": "qst-2-T", "ctor": False, "steps": [("option", True)]},                       # C12_before_fix_relative_entropy_custom_weights_ignored_refuted
    {"exp": "qst-2-T", "ctor": True, "steps": [("option", False)]},                       # identity option on an object with constructor weights
    {"exp": "qst-2-T", "ctor": False, "steps": [("option", False), ("setter", True)]},    # setter on a configured fast object
    {"exp": "qst-2-T", "ctor": True, "steps": [("option", False), ("setter", True)]},     # stale extend weights
    # option-object re-use: after a direct set_weights the SAME option object must take effect again
    {"exp": "qst-2-T", "ctor": False, "steps": [("option", True), ("setter", True), ("option", None, "same")]},
    {"exp": "povmt-3-F", "ctor": False, "steps": [("option", False), ("setter", True), ("option", None, "same")]},
    {"exp": "qst-2-F", "ctor": True, "steps": [("option", True), ("option", None, "same"), ("option", None, "equal")]},
    # boundary values of the weights: an exact 0.0 (a schedule excluded from the fit), via option / setter / constructor
    {"exp": "qmpt3-2-T", "ctor": False, "steps": [("option", True)]},
    {"exp": "qst-2-T", "ctor": False, "zero": True, "steps": [("option", True)]},
    {"exp": "povmt-3-F", "ctor": False, "zero": True, "steps": [("option", False), ("setter", True)]},
    {"exp": "qpt-2-F", "ctor": True, "zero": True, "steps": [("option", True), ("setter", True)]},
]


def gen_re_qt(ctx, n):
    """plan steps: (kind, has_w) or (kind, has_w, opt) with opt = same (the SAME option object as the last option step) /
    equal (a distinct object with the same mode and weights)"""
    rng = ctx.rng
    exps = EXP_QUICK if ctx.quick else EXP_QUICK + EXP_MORE
    plans = [dict(w) for w in WITNESS_RE]
    for i in range(n):
        L = rng.choice([1, 2, 2, 3])
        steps = []
        for t in range(L):
            if t > 0 and rng.random() < 0.35:
                steps.append(("option", None, rng.choice(["same", "same", "equal"])))
            else:
                steps.append(("option" if (t == 0 or rng.random() < 0.5) else "setter", rng.random() < 0.5))
        plans.append({"exp": exps[(i * 7 + 3) % len(exps)], "ctor": rng.random() < 0.4, "steps": steps})
    cases = []
    for pl in plans:
        e = get_exp(pl["exp"]); ns, mm = e["ns"], e["m"]
        steps = []; last = None; next_oid = 0
        for pst in pl["steps"]:
            kind, has_w = pst[0], pst[1]
            opt = pst[2] if len(pst) > 2 else "new"
            st = gen_step(rng, e, 0)
            d = {"kind": kind, "nd": st["nd"], "q": st["q"], "opt": "new", "oid": -1}
            if kind == "option" and opt in ("same", "equal") and last is not None:
                d["w"] = None if last["w"] is None else list(last["w"]); d["opt"] = opt
                if opt == "same":
                    d["oid"] = last["oid"]
                else:
                    d["oid"] = next_oid; next_oid += 1
            else:
                d["w"] = rand_wvec(rng, ns) if has_w else None
                if kind == "option":
                    d["oid"] = next_oid; next_oid += 1
            if pl.get("zero") and d["w"] is not None:
                d["w"] = [dy(rng, 1, 40, 8) for _ in range(ns)]; d["w"][rng.randrange(ns)] = 0.0
            if kind == "option":
                last = d
            steps.append(d)
        cases.append({"exp": pl["exp"], "ctor_w": rand_wvec(rng, ns) if pl["ctor"] else None, "steps": steps, "layout": rng.choice(["view", "readonly"]) if rng.random() < 0.4 else "plain",
                      "v": rand_point(rng, e, rng.random() < 0.35), "h": [dy(rng, -1, 1, 16) for _ in range(e["nv"])]})
    return cases


def sub_re_qt(ctx):
    cases = gen_re_qt(ctx, ctx.n(28, 500))
    ctx.sample("re_qt", {k: (v if k != "steps" else [dict(s, q=s["q"][:4]) for s in v]) for k, v in cases[0].items()})
    ctx.run_cases("re_qt", chk_re_qt, cases)


# ================================================================== schedules with DIFFERENT numbers of outcomes
SITE_MIX_GEN = "ProbabilityBasedLossFunction.set_func_prob_dists_from_standard_qt"
SITE_MIX_FAST = "StandardQTomographyBasedWeighted*.set_prob_dists_q"
MIX_EXPS = {          # name -> (type, outcome counts of the tester POVMs)
    "mqst-322": ("qst", [3, 2, 2]), "mqst-243": ("qst", [2, 4, 3]), "mqst-25": ("qst", [2, 5]),
    "mqpt-32": ("qpt", [3, 2]), "mqpt-24": ("qpt", [2, 4]), "mqmpt-23": ("qmpt", [2, 3]),
    # user-defined schedules: the testers permuted and / or only a subset of them used (":" + POVM order, states in reverse order)
    "mqst-322:201": ("qst", [3, 2, 2]), "mqst-243:20": ("qst", [2, 4, 3]), "mqpt-32:10": ("qpt", [3, 2]), "mqmpt-23:1": ("qmpt", [2, 3]),
}
_MIX = {}


def get_mix_exp(name, para):
    key = (name, para)
    if key in _MIX:
        return _MIX[key]
    w = quiet()
    try:
        from quara.objects.composite_system_typical import generate_composite_system
        from quara.objects.tester_typical import generate_tester_states, generate_tester_povms
        from quara.objects.state import State
        from quara.objects.gate import Gate
        from quara.objects.mprocess import MProcess
        from quara.protocol.qtomography.standard.standard_qst import StandardQst
        from quara.protocol.qtomography.standard.standard_qpt import StandardQpt
        from quara.protocol.qtomography.standard.standard_qmpt import StandardQmpt
        typ, ks = MIX_EXPS[name]
        order = [int(ch) for ch in name.split(":")[1]] if ":" in name else None
        c_sys = generate_composite_system("qubit", 1)
        std = generate_tester_povms(c_sys, ["x", "y", "z"])
        povms = [std[i % 3] if k == 2 else kpovm(c_sys, k, i) for i, k in enumerate(ks)]
        states = generate_tester_states(c_sys, ["x0", "y0", "z0", "z1"])
        s2 = np.sqrt(2)
        srev = list(range(len(states)))[::-1]
        if typ == "qst":
            sch = "all" if order is None else [[("state", 0), ("povm", j)] for j in order]
            qt = StandardQst(povms, on_para_eq_constraint=para, schedules=sch)
            obj = State(c_sys, np.array([1, 0, 0, 0]) / s2, on_para_eq_constraint=para)
        elif typ == "qpt":
            sch = "all" if order is None else [[("state", i), ("gate", 0), ("povm", j)] for j in order for i in srev]
            qt = StandardQpt(states, povms, on_para_eq_constraint=para, schedules=sch)
            obj = Gate(c_sys, np.diag([1.0, 0, 0, 0]), on_para_eq_constraint=para)
        else:
            sch = "all" if order is None else [[("state", i), ("mprocess", 0), ("povm", j)] for i in srev for j in order + [0]]
            qt = StandardQmpt(states, povms, num_outcomes=2, on_para_eq_constraint=para, schedules=sch)
            obj = MProcess(c_sys, [np.diag([0.5, 0, 0, 0])] * 2, on_para_eq_constraint=para)
        A = np.array(qt.calc_matA(), dtype=np.float64); b = np.array(qt.calc_vecB(), dtype=np.float64)
        sizes = [qt.num_outcomes(j) for j in range(qt.num_schedules)]
        assert sum(sizes) == A.shape[0] and len(set(sizes)) > 1, (name, sizes, A.shape)
        e = {"qt": qt, "A": A, "b": b, "sizes": sizes, "nv": qt.num_variables, "v0": np.array(obj.to_var(), dtype=np.float64)}
        _MIX[key] = e
        return e
    finally:
        w.__exit__(None, None, None)


def chk_mixed_counts(ctx, case):
    """all four loss classes on experiments whose schedules have DIFFERENT numbers of outcomes: value / gradient / Hessian =
    sum over schedules of the one-schedule model (ns = 1, m = that schedule's outcome count) on the schedule's own rows of
    matA, vecB, data and weights; fast = generic"""
    from quara.loss_function.weighted_probability_based_squared_error import (
        WeightedProbabilityBasedSquaredError, WeightedProbabilityBasedSquaredErrorOption)
    from quara.loss_function.standard_qtomography_based_weighted_probability_based_squared_error import (
        StandardQTomographyBasedWeightedProbabilityBasedSquaredError, StandardQTomographyBasedWeightedProbabilityBasedSquaredErrorOption)
    from quara.loss_function.weighted_relative_entropy import WeightedRelativeEntropy, WeightedRelativeEntropyOption
    from quara.loss_function.standard_qtomography_based_weighted_relative_entropy import (
        StandardQTomographyBasedWeightedRelativeEntropy, StandardQTomographyBasedWeightedRelativeEntropyOption)
    m = ctx.get_model()
    e = get_mix_exp(case["exp"], case["para"]); qt = e["qt"]; sizes = e["sizes"]; nv = e["nv"]; ns = len(sizes)
    off = [sum(sizes[:j]) for j in range(ns + 1)]
    v = np.array(case["v"], dtype=np.float64)
    qs = [case["q"][off[j]:off[j + 1]] for j in range(ns)]
    data = [(int(case["nd"][j]), np.array(qs[j], dtype=np.float64)) for j in range(ns)]
    mode = case["mode"]; fam = case["family"]
    Aj = [fl(e["A"][off[j]:off[j + 1]]) for j in range(ns)]; bj = [fl(e["b"][off[j]:off[j + 1]]) for j in range(ns)]
    ctx.count("mixed_counts", key=("mix", case["exp"], case["para"], fam, mode, tuple(case["v"]), tuple(case["q"])), nontrivial=True,
              label="%s-%s-%s" % (case["exp"].replace(":", "-sched"), fam, MODES.get(mode, mode)))
    wq = quiet()
    try:
        if fam == "se":
            # weights the mode denotes, per schedule (each with its own size)
            if mode == 0:
                Ws = [None] * ns
            elif mode == 1:
                Ws = [case["custom"][j] for j in range(ns)]
            else:
                Ws = []
                for j in range(ns):
                    st, W = m_inv_weight(m, mode in (3, 4), sizes[j], case["nd"][j], qs[j])
                    if st == "err":
                        ctx.violation("mixed_counts", SITE_SE_MODE, "model-mismatch:certificate", "inverse certificate failed (code %s)" % W, case)
                        return
                    Ws.append([float(x) for x in W])
            sv = Fraction(0); sg = [Fraction(0)] * nv; sh = [Fraction(0)] * (nv * nv)
            for j in range(ns):
                a_, g_, h_ = m_se(m, 1, sizes[j], nv, Aj[j], bj[j], qs[j], case["v"], Ws[j])
                sv += a_; sg = [x + y for x, y in zip(sg, g_)]; sh = [x + y for x, y in zip(sh, h_)]
            wl = None if mode != 1 else [np.array(case["custom"][j], dtype=np.float64).reshape(sizes[j], sizes[j]) for j in range(ns)]
            res = {}
            for fast, cls, ocls in ((False, WeightedProbabilityBasedSquaredError, WeightedProbabilityBasedSquaredErrorOption),
                                    (True, StandardQTomographyBasedWeightedProbabilityBasedSquaredError, StandardQTomographyBasedWeightedProbabilityBasedSquaredErrorOption)):
                try:
                    obj = cls(nv)
                    obj.set_from_standard_qtomography_option_data(qt, ocls(mode_weight=MODES[mode], weights=wl), data, True, not fast)
                    val = float(obj.value(v)); grad = fl(obj.gradient(v)); hess = None if fast else fl(obj.hessian(v))
                    if fast:
                        val2 = float(obj.value(v, validate=True))
                        if val2 != val:
                            ctx.violation("mixed_counts", SITE_MIX_FAST, "validate-changes-value", "value(validate=True) %r != value %r" % (val2, val), case)
                    res[fast] = (val, grad, hess)
                except (ValueError, IndexError) as exc:
                    ctx.violation("mixed_counts", SITE_MIX_FAST if fast else SITE_MIX_GEN,
                                  "mixed-outcome-counts-fast-path-raises" if fast else "mixed-outcome-counts-equal-slices",
                                  "%s squared error with schedule outcome counts %s raises %s: %s (defining formula gives %r)" % (
                                      "fast" if fast else "generic", sizes, type(exc).__name__, str(exc)[:120], float(sv)), case)
            if False in res:
                val, grad, hess = res[False]
                if not (rel_close(val, sv, 1e-6) and vec_close(grad, sg, 1e-6) and vec_close(hess, sh, 1e-6)):
                    ctx.violation("mixed_counts", SITE_MIX_GEN, "mixed-outcome-counts-value-neq-formula",
                                  "generic squared error, outcome counts %s: value %r, sum over schedules of the defining formula %r" % (sizes, val, float(sv)), case)
            if False in res and True in res:
                if not (rel_close(res[True][0], res[False][0], 1e-7) and vec_close(res[True][1], res[False][1], 1e-7)):
                    ctx.violation("mixed_counts", SITE_MIX_FAST, "fast-neq-generic", "fast %r generic %r (outcome counts %s)" % (res[True][0], res[False][0], sizes), case)
        else:
            ws = case.get("w")
            p = e["A"] @ v + e["b"]
            if in_band(fl(p), case["q"]):
                return
            cs = []; as_ = []; sg = [Fraction(0)] * nv; sh = [Fraction(0)] * (nv * nv)
            for j in range(ns):
                r = m.call("c12.re", [1, sizes[j], nv, 0 if ws is None else 1], [EPS, EPS] + Aj[j] + bj[j] + qs[j] + list(case["v"]) + ([] if ws is None else [ws[j]]))
                c_, a_, g_, h_ = m_re_parse(r, sizes[j], nv)
                cs += c_; as_ += a_; sg = [x + y for x, y in zip(sg, g_)]; sh = [x + y for x, y in zip(sh, h_)]
            sval, smag = ln_sum(cs, as_)
            res = {}
            for fast, cls, ocls in ((False, WeightedRelativeEntropy, WeightedRelativeEntropyOption),
                                    (True, StandardQTomographyBasedWeightedRelativeEntropy, StandardQTomographyBasedWeightedRelativeEntropyOption)):
                try:
                    obj = cls(nv)
                    obj.set_from_standard_qtomography_option_data(qt, ocls("identity" if ws is None else "custom", weights=None if ws is None else list(ws)), data, True, not fast)
                    val = float(obj.value(v)); grad = fl(obj.gradient(v)); hess = None if fast else fl(obj.hessian(v))
                    res[fast] = (val, grad, hess)
                except (ValueError, IndexError) as exc:
                    ctx.violation("mixed_counts", SITE_MIX_FAST if fast else SITE_MIX_GEN,
                                  "mixed-outcome-counts-fast-path-raises" if fast else "mixed-outcome-counts-equal-slices",
                                  "%s relative entropy with schedule outcome counts %s raises %s: %s (defining formula gives %r)" % (
                                      "fast" if fast else "generic", sizes, type(exc).__name__, str(exc)[:120], sval), case)
            if False in res:
                val, grad, hess = res[False]
                if abs(val - sval) > 1e-8 * (1.0 + smag) or not vec_close(grad, sg, 1e-8) or not vec_close(hess, sh, 1e-8):
                    ctx.violation("mixed_counts", SITE_MIX_GEN, "mixed-outcome-counts-value-neq-formula",
                                  "generic relative entropy, outcome counts %s: value %r, sum_j w_j sum_x q ln(q/p) = %r" % (sizes, val, sval), case)
            if False in res and True in res:
                if abs(res[True][0] - res[False][0]) > 1e-8 * (1.0 + smag) or not vec_close(res[True][1], res[False][1], 1e-8):
                    ctx.violation("mixed_counts", SITE_MIX_FAST, "fast-neq-generic", "fast %r generic %r (outcome counts %s)" % (res[True][0], res[False][0], sizes), case)
    finally:
        wq.__exit__(None, None, None)


def sub_mixed_counts(ctx):
    rng = ctx.rng
    names = sorted(MIX_EXPS)
    cases = []
    for i in range(ctx.n(11, 160)):
        name = names[i % len(names)] if not ctx.quick else ["mqst-322", "mqst-243:20", "mqpt-32:10", "mqmpt-23", "mqst-25", "mqst-322:201", "mqmpt-23:1"][i % 7]
        para = bool((i // len(names)) % 2) if not ctx.quick else bool(i % 2)
        e = get_mix_exp(name, para); sizes = e["sizes"]; ns = len(sizes)
        fam = "se" if i % 3 != 2 else "re"
        nd = [rng.choice([100, 400, 1000, 10000]) for _ in range(ns)]
        q = [x for j in range(ns) for x in rand_q(rng, sizes[j], nd[j])]
        c = {"exp": name, "para": para, "family": fam, "nd": nd, "q": q, "v": rand_point(rng, e, fam == "se" and rng.random() < 0.5)}
        if fam == "se":
            c["mode"] = rng.choice([0, 1, 2, 3, 4])
            if c["mode"] == 1:
                c["custom"] = [[x for row in rand_wmat(rng, sizes[j]) for x in row] for j in range(ns)]
        else:
            c["mode"] = "re"
            c["w"] = rand_wvec(rng, ns) if rng.random() < 0.6 else None
        cases.append(c)
    ctx.sample("mixed_counts", {k: (v if k not in ("q", "custom") else None) for k, v in cases[0].items()})
    ctx.run_cases("mixed_counts", chk_mixed_counts, cases)


# ================================================================== plain functions
def chk_fns(ctx, case):
    from quara.math import entropy as ent
    from quara.utils import matrix_util as mu
    m = ctx.get_model()
    kind = case["kind"]
    w = quiet()
    try:
        if kind == "entropy":
            mm, nv = case["m"], case["nv"]
            q = np.array(case["q"], dtype=np.float64); p = np.array(case["p"], dtype=np.float64)
            G = np.array(case["G"], dtype=np.float64).reshape(mm, nv); HP = np.array(case["HP"], dtype=np.float64).reshape(nv, nv, mm)
            eq_ = float(case.get("epsq", EPS)); ep_ = float(case.get("epsp", EPS))       # non-default clipping thresholds
            kw = {} if (eq_ == EPS and ep_ == EPS) else {"eps_q": eq_, "eps_p": ep_}
            band = in_band(fl(p), fl(q), eq_, ep_)
            neg = bool(np.any(p < -1e-13))
            ctx.count("fns", key=("ent", tuple(case["q"]), tuple(case["p"])), nontrivial=not band, label="entropy-m%d%s%s%s" % (mm, "-negp" if neg else "", "-inband" if band else "", "-eps" if kw else ""))
            if band:
                return
            c, a, mg, mh = m_re_parse(m.call("c12.re_at", [1, mm, nv, 0, 1], [eq_, ep_] + fl(p) + fl(q) + fl(G) + fl(HP)), mm, nv)
            mval, mag = ln_sum(c, a)
            val = float(ent.relative_entropy(q, p, is_valid_required=False, **kw))
            grad = fl(ent.gradient_relative_entropy_2nd(q, p, G, is_valid_required=False, **kw))
            hess = ent.hessian_relative_entropy_2nd(q, p, G, HP.transpose(2, 0, 1), is_valid_required=False, **kw)
            hess = fl(hess) if not np.isscalar(hess) else [0.0] * (nv * nv)
            if abs(val - mval) > TOL * (1.0 + mag):
                ctx.violation("fns", "entropy.relative_entropy", "value", "%r vs model %r" % (val, mval), case)
            if not vec_close(grad, mg, TOL):
                ctx.violation("fns", "entropy.gradient_relative_entropy_2nd", "value", "%s vs model %s" % (grad[:3], [float(x) for x in mg[:3]]), case)
            if not vec_close(hess, mh, TOL):
                ctx.violation("fns", "entropy.hessian_relative_entropy_2nd", "value", "Hessian differs from model", case)
            # vector forms against the fast model (A := G, b := p, v := 0)
            rr = m.call("c12.re_fast", [mm, nv, 0], [eq_, ep_] + fl(G) + fl(p) + fl(q) + [0.0] * nv)
            fc, fa, fg, _ = m_re_parse(rr, mm, nv, hess=False)
            vec = fl(ent.relative_entropy_vector(q, p, is_valid_required=False, **kw))
            getcontext().prec = 50
            exp_vec = [float(dec(ci) * dln(ai)) if ci != 0 else 0.0 for ci, ai in zip(fc, fa)]
            if not vec_close(vec, exp_vec, TOL):
                ctx.violation("fns", "entropy.relative_entropy_vector", "value", "%s vs model %s" % (vec, exp_vec), case)
            gvec = np.array(ent.gradient_relative_entropy_2nd_vector(q, p, G, is_valid_required=False, **kw))
            if not vec_close(fl(gvec.sum(axis=0)), fg, TOL):
                ctx.violation("fns", "entropy.gradient_relative_entropy_2nd_vector", "value", "column sums differ from model", case)
            # fast = generic on non-negative data (theorem C12_re_fast_eq_generic), evaluated on the implementation
            if abs(sum(vec) - val) > TOL * (1.0 + mag) or not vec_close(fl(gvec.sum(axis=0)), grad, TOL):
                ctx.violation("fns", "entropy.relative_entropy_vector", "vector-form-neq-scalar-form", "sum of vector form %r, scalar form %r" % (sum(vec), val), case)
            # validation branch: negative p beyond atol must raise when is_valid_required
            st_all = "ok"
            for qq, pp in zip(fl(q), fl(p)):
                if qq >= eq_:
                    st, _ = m.try_call("c12.round_varz", [1], [1e-13, pp, ep_])
                    if st == "err":
                        st_all = "err"
            if any(-1e-13 * 1.01 <= pp <= -1e-13 * 0.99 for pp in fl(p)):
                return
            try:
                ent.relative_entropy(q, p, is_valid_required=True, **kw); impl = "ok"
            except ValueError:
                impl = "err"
            if impl != st_all:
                ctx.violation("fns", "entropy.round_varz", "error-branch", "is_valid_required=True: implementation %s, model %s" % (impl, st_all), case)
        elif kind == "cov":
            mm = case["m"]; q = np.array(case["q"], dtype=np.float64); nd = case["nd"]
            rep = fl(mu.replace_prob_dist(q))
            mrep = m.call("c12.replace_prob_dist", [mm], [REPL_EPS] + fl(q))
            cov = fl(mu.calc_covariance_mat(np.array(rep), nd))
            mcov = m.call("c12.cov", [mm], [float(nd)] + rep)
            nz = sum(1 for x in fl(q) if x < REPL_EPS)
            # hypotheses of C12_inverse_covariance_block_positive_definite on the implementation's replaced distribution
            pd_hyp = min(rep) >= 0.0 and sum(ex(x) for x in rep[:-1]) <= 1 and nd >= 2
            ctx.count("fns", key=("cov", tuple(case["q"]), nd), nontrivial=mm >= 3, label="cov-m%d-z%d%s" % (mm, nz, "" if pd_hyp else "-pdhyp-unmet"))
            if not vec_close(rep, mrep, 1e-12):
                ctx.violation("fns", "matrix_util.replace_prob_dist", "value", "%s vs model %s" % (rep, [float(x) for x in mrep]), case)
            if not vec_close(cov, mcov, 1e-12):
                ctx.violation("fns", "matrix_util.calc_covariance_mat", "value", "covariance differs from model", case)
            if abs(sum(rep) - sum(fl(q))) > 1e-12 and nz < mm and all(x == 0.0 or x >= REPL_EPS for x in fl(q)):
                ctx.violation("fns", "matrix_util.replace_prob_dist", "mass-not-preserved", "sum %r -> %r" % (sum(fl(q)), sum(rep)), case)
            # inverse-covariance weight of one data set for 2..5 outcomes: exists, equals the certified exact inverse on the
            # leading block (model place_inv), is accepted by the class's own symmetry validation
            from quara.loss_function.weighted_probability_based_squared_error import WeightedProbabilityBasedSquaredError
            for mode, ub in (("inverse_sample_covariance", 0), ("inverse_unbiased_covariance", 1), ("unbiased_inverse_covariance", 1)):
                loss = WeightedProbabilityBasedSquaredError(3)
                try:
                    loss._set_weights_by_mode(mode, [(int(nd), q)])
                    impl = ("ok", None if not loss.weight_matrices else fl(loss.weight_matrices[0]))
                except ValueError as exc:
                    impl = ("err", str(exc)[:160])
                st, W = m_inv_weight(m, ub, mm, nd, fl(q))
                ctx.count("fns", key=("invw", tuple(case["q"]), nd, mode), nontrivial=True, label="invweight-m%d-%s" % (mm, st))
                if st == "err":
                    ctx.violation("fns", SITE_SE_MODE, "model-mismatch:certificate", "inverse certificate / placement failed, code %s" % W, case)
                elif impl[0] == "err":
                    ctx.violation("fns", SITE_SE_MODE, "inverse-covariance-raises-for-more-than-2-outcomes" if mm != 2 else "model-mismatch:error-branch",
                                  "%s with %d outcomes raises ValueError: %s" % (mode, mm, impl[1]), case)
                elif impl[1] is None:
                    ctx.violation("fns", SITE_SE_MODE, "alias-mode-unbiased_inverse_covariance-ignored" if mode.startswith("unbiased") else "mode-not-effective",
                                  "%s leaves weight_matrices None" % mode, case)
                elif not vec_close(impl[1], W, 1e-8):
                    ctx.violation("fns", SITE_SE_MODE, "model-mismatch:weights", "weights %s vs model %s" % (impl[1][:6], [float(x) for x in W[:6]]), case)
        elif kind == "round":
            vr, atol, z, eps = case["vr"], case["atol"], case["z"], case["eps"]
            try:
                val = float(ent.round_varz(np.float64(z), eps, is_valid_required=bool(vr), atol=atol)); impl = "ok"
            except ValueError:
                impl = "err"
            st, r = m.try_call("c12.round_varz", [vr], [atol, z, eps])
            ctx.count("fns", key=("round", vr, atol, z, eps), nontrivial=False, label="round_varz-" + st)
            if impl != st or (st == "ok" and val != float(r[0])):
                ctx.violation("fns", "entropy.round_varz", "value", "implementation %s model %s" % (impl, st), case)
    finally:
        w.__exit__(None, None, None)


def gen_fns(ctx, n):
    rng = ctx.rng
    cases = []
    for i in range(n):
        mm = rng.choice([2, 3, 4, 5]); nv = rng.choice([1, 2, 3])
        q = rand_q(rng, mm, rng.choice([10, 64, 100, 1000]))
        if rng.random() < 0.15:
            q[rng.randrange(mm)] = 5e-11
        neg = rng.random() < 0.35
        p = [dy(rng, -8 if neg else 1, 64, 64) for _ in range(mm)]
        if rng.random() < 0.1:
            p[rng.randrange(mm)] = 1e-14 * rng.choice([-1, 1])        # within atol of 0
        if rng.random() < 0.1:
            k = rng.randrange(mm); q[k] = 1.5e-10; p[k] = 2.0         # ratio clipped: q/p < eps_p
        if rng.random() < 0.12:
            q[rng.randrange(mm)] = EPS                                # exactly at the threshold eps_q (branch "q >= eps_q" taken)
        if rng.random() < 0.12:
            p[rng.randrange(mm)] = EPS                                # exactly at the threshold eps_p
        c_ = {"kind": "entropy", "m": mm, "nv": nv, "q": q, "p": p, "G": [dy(rng, -2, 2, 8) for _ in range(mm * nv)],
              "HP": [dy(rng, -1, 1, 4) for _ in range(nv * nv * mm)]}
        if rng.random() < 0.25:                                       # explicit, non-default thresholds (exactly representable ones too)
            c_["epsq"] = rng.choice([1e-6, 0.015625, 0.25]); c_["epsp"] = rng.choice([1e-6, 0.015625, 0.125])
        cases.append(c_)
    for i in range(max(8, n // 2)):
        mm = 2 + i % 4
        nd = rng.choice([100, 400, 1000, 10000, rng.randint(10, 5000)])
        q = rand_q(rng, mm, nd)
        if rng.random() < 0.2:
            q[rng.randrange(mm)] = 5e-9
        cases.append({"kind": "cov", "m": mm, "q": q, "nd": nd})
    for vr in (0, 1):
        for z in (0.5, 0.0, -5e-14, -2e-13, -0.25, 1e-11):
            for eps in (1e-10, 0.0, -1e-3):
                cases.append({"kind": "round", "vr": vr, "atol": 1e-13, "z": z, "eps": eps})
    return cases


def sub_fns(ctx):
    cases = gen_fns(ctx, ctx.n(60, 600))
    ctx.sample("fns", cases[0])
    ctx.run_cases("fns", chk_fns, cases)


# ================================================================== simple quadratic
def chk_simple_quadratic(ctx, case):
    from quara.loss_function.simple_quadratic_loss_function import SimpleQuadraticLossFunction
    m = ctx.get_model()
    n = case["n"]
    ref = np.array(case["ref"], dtype=np.float64); v = np.array(case["v"], dtype=np.float64); h = np.array(case["h"], dtype=np.float64)
    loss = SimpleQuadraticLossFunction(ref)
    f0 = float(loss.value(v)); g0 = fl(loss.gradient(v)); H = np.array(loss.hessian(v), dtype=np.float64)
    r = m.call("c12.sq", [n], fl(ref) + fl(v))
    ctx.count("simple_quadratic", key=("sq", tuple(case["ref"]), tuple(case["v"])), nontrivial=n >= 2, label="n%d" % n)
    if not (rel_close(f0, r[0], 1e-12) and vec_close(g0, r[1:1 + n], 1e-12) and vec_close(fl(H), r[1 + n:], 1e-12)):
        ctx.violation("simple_quadratic", "SimpleQuadraticLossFunction", "value", "value/gradient/Hessian differ from model", case)
    taylor_check(ctx, "simple_quadratic", "SimpleQuadraticLossFunction", case, f0, float(loss.value(v + h)), g0, fl(loss.gradient(v + h)), H.tolist(), fl(h))
    try:
        loss.value(np.zeros(n + 1)); bad = True
    except ValueError:
        bad = False
    if bad:
        ctx.violation("simple_quadratic", "SimpleQuadraticLossFunction.value", "error-branch", "wrong variable shape accepted", case)


def sub_simple_quadratic(ctx):
    rng = ctx.rng
    cases = []
    for i in range(ctx.n(15, 150)):
        n = rng.choice([1, 2, 3, 4, 8])
        cases.append({"n": n, "ref": [dy(rng, -4, 4, 16) for _ in range(n)], "v": [dy(rng, -4, 4, 16) for _ in range(n)], "h": [dy(rng, -4, 4, 16) for _ in range(n)]})
    ctx.sample("simple_quadratic", cases[0])
    ctx.run_cases("simple_quadratic", chk_simple_quadratic, cases)


SUBS = [("se_callables", sub_se_callables), ("se_qt", sub_se_qt), ("re_callables", sub_re_callables), ("re_qt", sub_re_qt),
        ("mixed_counts", sub_mixed_counts), ("fns", sub_fns), ("simple_quadratic", sub_simple_quadratic)]
FNS = {"se_callables": chk_se_callables, "se_qt": chk_se_qt, "re_callables": chk_re_callables, "re_qt": chk_re_qt,
       "mixed_counts": chk_mixed_counts, "fns": chk_fns, "simple_quadratic": chk_simple_quadratic}


# ================================================================== LossMinimizationEstimator.calc_estimate_sequence end to end
def chk_estimate_sequence(ctx, case):
    """one loss object and ONE option object for a whole sequence of data sets (what calc_estimate_sequence does): every
    estimate of the sequence must equal the estimate obtained for that data set alone with fresh objects (the weights of the
    data dependent modes are those of the CURRENT data set), (generic and fast class are both driven; their estimates are not compared - an iterative optimiser -) and the weights left in the
    loss object are those the mode denotes for the LAST data set"""
    from quara.protocol.qtomography.standard.loss_minimization_estimator import LossMinimizationEstimator
    from quara.minimization_algorithm.projected_gradient_descent_backtracking import (
        ProjectedGradientDescentBacktracking, ProjectedGradientDescentBacktrackingOption)
    from quara.loss_function.weighted_probability_based_squared_error import (
        WeightedProbabilityBasedSquaredError, WeightedProbabilityBasedSquaredErrorOption)
    from quara.loss_function.standard_qtomography_based_weighted_probability_based_squared_error import (
        StandardQTomographyBasedWeightedProbabilityBasedSquaredError, StandardQTomographyBasedWeightedProbabilityBasedSquaredErrorOption)
    m = ctx.get_model()
    e = get_exp(case["exp"]); qt = e["qt"]; ns, mm, nv = e["ns"], e["m"], e["nv"]
    mode = case["mode"]
    seqs = [[(int(d["nd"][j]), np.array(d["q"][j * mm:(j + 1) * mm], dtype=np.float64)) for j in range(ns)] for d in case["data"]]
    ctx.count("estimate_sequence", key=("seq", case["exp"], mode, tuple(case["data"][0]["q"])), nontrivial=True, label="%s-%s-%d" % (case["exp"].split("-")[0], MODES[mode], len(seqs)))
    wq = quiet()
    try:
        res = {}
        for fast, cls, ocls in ((False, WeightedProbabilityBasedSquaredError, WeightedProbabilityBasedSquaredErrorOption),
                                (True, StandardQTomographyBasedWeightedProbabilityBasedSquaredError, StandardQTomographyBasedWeightedProbabilityBasedSquaredErrorOption)):
            name = cls.__name__
            loss = cls(nv)
            r = LossMinimizationEstimator().calc_estimate_sequence(qt, seqs, loss, ocls(MODES[mode]), ProjectedGradientDescentBacktracking(),
                                                                  ProjectedGradientDescentBacktrackingOption(), is_computation_time_required=False)
            seq = [fl(x) for x in r.estimated_var_sequence]
            for i, d in enumerate(seqs):
                r1 = LossMinimizationEstimator().calc_estimate(qt, d, cls(nv), ocls(MODES[mode]), ProjectedGradientDescentBacktracking(),
                                                              ProjectedGradientDescentBacktrackingOption(), is_computation_time_required=False)
                if not vec_close(seq[i], fl(r1.estimated_var), 1e-9):
                    ctx.violation("estimate_sequence", "LossMinimizationEstimator.calc_estimate_sequence(%s)" % name, "estimate-depends-on-earlier-data-sets",
                                  "data set %d of the sequence: estimate %s, the same data set alone with fresh objects %s" % (i, seq[i][:4], fl(r1.estimated_var)[:4]), case)
                    break
            # weights left in the object = those of the LAST data set
            last = {"mode": mode, "nd": case["data"][-1]["nd"], "q": case["data"][-1]["q"], "custom": None}
            spec = spec_weights(m, ns, mm, last)
            w_left, _ = se_state(loss, fast)
            if spec[0] == "w" and not same(w_left, [float(x) for x in spec[1]]):
                ctx.violation("estimate_sequence", SITE_SE_MODE, "weights-after-sequence-not-those-of-last-data-set",
                              "%s: the weights left after the sequence are not the %s weights of the last data set" % (name, MODES[mode]), case)
            res[fast] = seq
    finally:
        wq.__exit__(None, None, None)


def sub_estimate_sequence(ctx):
    rng = ctx.rng
    # (projected gradient descent on the ill-conditioned inverse-covariance losses is slow for > 2 outcomes: quick tier uses QST with 2-outcome testers)
    plans = [("qst-2-T", 2), ("qst-2-F", 4)][:(1 if ctx.quick else 2)] + ([] if ctx.quick else [("qst-2-F", 2), ("qst-2-T", 3), ("qst-2-F", 3), ("qst-2-T", 4)] * 2)
    cases = []
    for name, mode in plans:
        e = get_exp(name)
        data = []
        for t in range(2 if ctx.quick else rng.choice([2, 3])):
            st = gen_step(rng, e, mode)
            data.append({"nd": st["nd"], "q": st["q"]})
        cases.append({"exp": name, "mode": mode, "data": data})
    ctx.sample("estimate_sequence", {"exp": cases[0]["exp"], "mode": cases[0]["mode"], "n": len(cases[0]["data"])})
    ctx.run_cases("estimate_sequence", chk_estimate_sequence, cases)


SUBS.append(("estimate_sequence", sub_estimate_sequence)); FNS["estimate_sequence"] = chk_estimate_sequence


# ================================================================== explicit arguments vs the object's own configuration
def chk_config_args(ctx, case):
    """fresh objects of the four classes, constructed with a num_var that is NOT the experiment's (None / too small / too
    large), configured with every combination of is_gradient_required / is_hessian_required: the value is the model's whatever
    the flags, gradient / Hessian are the model's (with the experiment's number of variables) when they were required"""
    from quara.loss_function.weighted_probability_based_squared_error import (
        WeightedProbabilityBasedSquaredError, WeightedProbabilityBasedSquaredErrorOption)
    from quara.loss_function.standard_qtomography_based_weighted_probability_based_squared_error import (
        StandardQTomographyBasedWeightedProbabilityBasedSquaredError, StandardQTomographyBasedWeightedProbabilityBasedSquaredErrorOption)
    from quara.loss_function.weighted_relative_entropy import WeightedRelativeEntropy, WeightedRelativeEntropyOption
    from quara.loss_function.standard_qtomography_based_weighted_relative_entropy import (
        StandardQTomographyBasedWeightedRelativeEntropy, StandardQTomographyBasedWeightedRelativeEntropyOption)
    m = ctx.get_model()
    e = get_exp(case["exp"]); qt = e["qt"]; ns, mm, nv = e["ns"], e["m"], e["nv"]; N = ns * mm
    A = fl(e["A"]); b = fl(e["b"]); v = np.array(case["v"], dtype=np.float64); q = list(case["q"])
    data = [(int(case["nd"][j]), np.array(q[j * mm:(j + 1) * mm], dtype=np.float64)) for j in range(ns)]
    gr, he = case["flags"]; ctor_nv = {"none": None, "small": max(nv - 1, 1), "large": nv + 2, "right": nv}[case["ctor_nv"]]
    p = e["A"] @ v + e["b"]
    sv, sg, sh = m_se(m, ns, mm, nv, A, b, q, case["v"], None)
    rc, ra, rg, rh = m_re_parse(m.call("c12.re", [ns, mm, nv, 0], [EPS, EPS] + A + b + q + list(case["v"])), N, nv)
    rval, rmag = ln_sum(rc, ra)
    band = in_band(fl(p), q)
    wq = quiet()
    try:
        for name, cls, opt, fast, fam in (
                ("WeightedProbabilityBasedSquaredError", WeightedProbabilityBasedSquaredError, WeightedProbabilityBasedSquaredErrorOption("identity"), False, "se"),
                ("StandardQTomographyBasedWeightedProbabilityBasedSquaredError", StandardQTomographyBasedWeightedProbabilityBasedSquaredError,
                 StandardQTomographyBasedWeightedProbabilityBasedSquaredErrorOption("identity"), True, "se"),
                ("WeightedRelativeEntropy", WeightedRelativeEntropy, WeightedRelativeEntropyOption("identity"), False, "re"),
                ("StandardQTomographyBasedWeightedRelativeEntropy", StandardQTomographyBasedWeightedRelativeEntropy,
                 StandardQTomographyBasedWeightedRelativeEntropyOption("identity"), True, "re")):
            if fam == "re" and band:
                continue
            ctx.count("config_args", key=("cfa", name, case["exp"], tuple(case["flags"]), case["ctor_nv"], tuple(case["v"])), nontrivial=True,
                      label="%s-nv_%s-g%d-h%d" % ("fast" if fast else "generic", case["ctor_nv"], gr, he))
            obj = cls(ctor_nv)
            obj.set_from_standard_qtomography_option_data(qt, opt, data, gr, he and not fast)
            val = float(obj.value(v))
            ok = rel_close(val, sv, TOL) if fam == "se" else abs(val - rval) <= TOL * (1.0 + rmag)
            if not ok:
                ctx.violation("config_args", name, "value-depends-on-flags-or-constructor-argument",
                              "flags (gradient %s, hessian %s), constructor num_var %s: value %r, model %r" % (gr, he, ctor_nv, val, float(sv) if fam == "se" else rval), case)
            if not obj.on_value:
                ctx.violation("config_args", name, "on_value-false-after-configuration", "on_value is False after the configuration", case)
            if gr:
                grad = fl(obj.gradient(v))
                if not vec_close(grad, sg if fam == "se" else rg, TOL):
                    ctx.violation("config_args", name, "gradient-depends-on-flags-or-constructor-argument",
                                  "constructor num_var %s, experiment has %d variables: gradient has %d entries / differs from the model" % (ctor_nv, nv, len(grad)), case)
                if not fast and he:
                    hess = fl(obj.hessian(v))
                    if not vec_close(hess, sh if fam == "se" else rh, TOL):
                        ctx.violation("config_args", name, "hessian-depends-on-flags-or-constructor-argument",
                                      "constructor num_var %s: Hessian has %d entries / differs from the model" % (ctor_nv, len(hess)), case)
    finally:
        wq.__exit__(None, None, None)


def sub_config_args(ctx):
    rng = ctx.rng
    exps = ["qst-2-T", "qst-3-T", "povmt-2-F", "qpt-2-T", "qmpt-2-F", "povmt-4-T"]
    cases = []
    combos = [((True, True), "none"), ((True, False), "small"), ((False, False), "large"), ((True, True), "large"), ((False, False), "none"), ((True, False), "right")]
    for i in range(ctx.n(6, 60)):
        e = get_exp(exps[i % len(exps)])
        st = gen_step(rng, e, 0)
        fl_, cn = combos[i % len(combos)] if i < len(combos) else (rng.choice([(True, True), (True, False), (False, False)]), rng.choice(["none", "small", "large", "right"]))
        cases.append({"exp": exps[i % len(exps)], "flags": list(fl_), "ctor_nv": cn, "nd": st["nd"], "q": st["q"], "v": rand_point(rng, e, False)})
    ctx.sample("config_args", {k: v for k, v in cases[0].items() if k != "q"})
    ctx.run_cases("config_args", chk_config_args, cases)


SUBS.append(("config_args", sub_config_args)); FNS["config_args"] = chk_config_args


# ================================================================== option constructors (decision table, executed)
def chk_options(ctx, case):
    """the option constructors on accepted / unknown / None mode strings, with and without weights: accepted exactly when the
    table of Model/C12_Dispatch.v (option_accepts) says so, and the stored mode is the table's"""
    from quara.loss_function.weighted_probability_based_squared_error import WeightedProbabilityBasedSquaredErrorOption
    from quara.loss_function.standard_qtomography_based_weighted_probability_based_squared_error import (
        StandardQTomographyBasedWeightedProbabilityBasedSquaredErrorOption)
    from quara.loss_function.weighted_relative_entropy import WeightedRelativeEntropyOption
    from quara.loss_function.standard_qtomography_based_weighted_relative_entropy import StandardQTomographyBasedWeightedRelativeEntropyOption
    se_modes = list(MODES.values()); re_modes = ["identity", "custom"]
    for cls, modes, wts_ in ((WeightedProbabilityBasedSquaredErrorOption, se_modes, [np.eye(2)] * 3),
                             (StandardQTomographyBasedWeightedProbabilityBasedSquaredErrorOption, se_modes, [np.eye(2)] * 3),
                             (WeightedRelativeEntropyOption, re_modes, [1.0, 2.0, 0.0]),
                             (StandardQTomographyBasedWeightedRelativeEntropyOption, re_modes, [1.0, 2.0, 0.0])):
        for hw in (False, True):
            mw = case["mode"]
            eff = "custom" if hw else mw
            expect = eff if eff in modes else None            # None = ValueError
            try:
                o = cls(mode_weight=mw, weights=wts_ if hw else None); got = o.mode_weight
            except ValueError:
                got = None
            ctx.count("options", key=("opt", cls.__name__, mw, hw), nontrivial=True, label="%s-%s" % ("accepted" if expect else "rejected", "w" if hw else "nw"))
            if got != expect:
                ctx.violation("options", cls.__name__ + ".__init__", "option-table",
                              "mode_weight=%r, weights %s: constructor gives %r, decision table %r" % (mw, "given" if hw else "None", got, expect), case)


def sub_options(ctx):
    cases = [{"mode": x} for x in list(MODES.values()) + [None, "", "Identity", "inverse_covariance", "unbiased_sample_covariance", "custom "]]
    ctx.sample("options", cases[0])
    ctx.run_cases("options", chk_options, cases)


SUBS.append(("options", sub_options)); FNS["options"] = chk_options


# ================================================================== translator tie
def regen_tables(ctx):
    """translator tie (protocol of flow.regen_check, with this property's own translator gen/c12_py2coq.py): regenerate the
    Gallina text of the two option constructors, the two _set_weights_by_mode dispatchers (incl. sample / unbiased selection and
    the slice bounds of the placement) and matrix_util.replace_prob_dist from the CURRENT source, compile it, and re-check
    coq/gen/C12_Equiv.v (regenerated = hand-written tables / model for ALL inputs; every accepted mode installs weights).
    returns (ok, info)"""
    import os, re, shutil, subprocess, sys
    import runner
    V = runner.V
    scratch = os.path.join(getattr(ctx, "scratch", os.path.join(V, "build", ctx.prop_id)), "gen")
    os.makedirs(scratch, exist_ok=True)
    gen_v = os.path.join(scratch, "Gen_c12_dispatch.v")
    for stem in (gen_v[:-2], os.path.join(scratch, "C12_Equiv")):
        for ext in (".vo", ".vos", ".vok", ".glob"):
            try:
                os.remove(stem + ext)
            except OSError:
                pass
    equiv = os.path.join(V, "coq", "gen", "C12_Equiv.v")
    src = open(equiv).read()
    src_nc = re.sub(r"\(\*.*?\*\)", " ", src, flags=re.S)
    thms = re.findall(r"^\s*Theorem\s+([\w']+)", src_nc, flags=re.M)
    ctx.theorems = list(ctx.theorems) + [t for t in thms if t not in ctx.theorems]
    ctx.obligations += len(thms)
    r = subprocess.run([sys.executable, os.path.join(V, "gen", "c12_py2coq.py"), os.environ.get("VERIF_REPO", "/repo"), gen_v],
                       capture_output=True, text=True, timeout=120)
    if r.returncode != 0:
        return False, {"theorem": thms[0], "error": "translator rejected the source (outside its subset): " + (r.stdout + r.stderr)[-600:]}
    q = ["-Q", os.path.join(V, "coq", "theories"), "QV", "-Q", scratch, "QVGen"]
    r = subprocess.run(["timeout", "300", "coqc"] + q + [gen_v], capture_output=True, text=True)
    if r.returncode != 0:
        return False, {"theorem": thms[0], "error": "regenerated tables do not compile: " + (r.stdout + r.stderr)[-600:]}
    dst = os.path.join(scratch, "C12_Equiv.v")
    shutil.copy(equiv, dst)
    r = subprocess.run(["timeout", "600", "coqc"] + q + [dst], capture_output=True, text=True)
    out = r.stdout + r.stderr
    if r.returncode != 0:
        m_ = re.search(r"line (\d+), characters", out)
        thm = None
        if m_:
            upto = "\n".join(src.splitlines()[:int(m_.group(1))])
            names = re.findall(r"^\s*(?:Theorem|Lemma)\s+([\w']+)", upto, flags=re.M)
            thm = names[-1] if names else None
        return False, {"theorem": thm, "error": out[-800:]}
    blocks = runner.parse_assumptions(out)
    bad = [a for closed, axs in blocks for a in axs if a not in runner.ALLOWED_AXIOMS and a.split(".")[-1] not in runner.ALLOWED_AXIOMS]
    if len(blocks) != len(thms) or bad:
        return False, {"theorem": thms[0], "error": "assumption gate on regenerated proofs: %d blocks / %d theorems, disallowed %s" % (len(blocks), len(thms), bad)}
    for t, (closed, axs) in zip(thms, blocks):
        ctx.axioms[t] = "closed" if closed else sorted(set(axs))
    ctx.discharged += len(thms)
    return True, {}


def run(ctx):
    import runner
    ctx.rule = ("seeded dyadic-rational inputs (floats exactly equal to the rationals the model receives): random forward models "
                "A (ns*m x nv), offsets, variable points inside (all p > 0.05) and outside (some p <= 0, incl. exactly 0) the positive region, "
                "empirical distributions counts/N with zero and sub-threshold entries, symmetric custom weight matrices / weight vectors, "
                "all five accepted weighting modes, configuration sequences of length 1..3 on fresh and reused objects with option OBJECTS re-used across "
                "steps (same object + new data, same object + same data, equal-but-distinct objects, same object after a direct setter), outcome counts 2..6, "
                "QST/POVMT/QPT/QMPT on one qubit with typical testers and k-outcome POVMs, both parametrisations; plus the histories of the Coq "
                "witnesses of the before-fix _refuted theorems and a malformed stream (asymmetric / integer weights, negative p with validation, negative eps, wrong shapes). "
                "non-trivial = all clipping decisions outside the 1e-12 band around their thresholds and at least 4 outcomes in total and 2 variables; "
                "distinct = distinct (configuration history, data, point)")
    ctx.assumptions = ["np.linalg.inv is an oracle: the inverse used by the model is computed exactly by the harness and CERTIFIED by the model (two-sided product = I) before placement",
                       "ln is a parameter of the relative-entropy model; model values are sum c_i ln a_i with exact rational c_i, a_i, evaluated with decimal (50 digits)",
                       "the forward model (matA, vecB) is read from the implementation (property C08 ties it to the objects)"]
    # flow.standard_run with this property's own translator tie (flow.regen_check is bound to gen/py2coq.py)
    ok, info = runner.check_props(ctx)
    ok2, info2 = regen_tables(ctx)
    if not ok2:
        ok, info = False, info2
        ctx.note("regenerated decision tables (coq/gen/C12_Equiv.v) not discharged: %s" % str(info2)[:400])
        # the tie is broken: widen the differential sweep (thorough-size generators) to find a concrete failing input
        ctx.n = lambda quick, thorough: max(quick, thorough // 8)
    if not ok:
        ctx.discharged = min(ctx.discharged, ctx.obligations - 1)
    for name, fn in SUBS:
        if ctx.only is None or name in ctx.only:
            fn(ctx)
    if not ok and not ctx.violations:
        ctx.violation("theorems", "Props/%s.v" % ctx.prop_id, "theorem-broken:%s" % info.get("theorem"),
                      "theorem %s no longer checks: %s" % (info.get("theorem"), info.get("error", "")[-400:]),
                      {"theorem": info.get("theorem"), "error": info.get("error")}, no_input=True)
    elif not ok:
        ctx.note("theorem obligations not discharged: %s" % info)


def replay(ctx, doc):
    flow.standard_replay(ctx, doc, FNS)
