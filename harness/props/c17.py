"""C17 — every catalogued object is physical and self-consistent.

Complete enumeration of quara's catalogues (states, POVMs, gates, measurement processes, ensembles, effective
Lindbladians, named matrix bases, legacy constructors) against
  * the Coq tables of Model/C17_Tables.v (textbook vectors / unitaries / bases / POVM and Kraus sets over Z[i, sqrt2],
    proved normalised / unitary / orthogonal / complete / consistent in Props/C17.v),
  * the executable QObj-based checkers of Model/C17_Catalogue.v (pure vector -> density -> coefficient vector,
    Kraus set -> HS matrix, Hamiltonian -> generator, HS . vec),
  * exact PSD decisions (qcheck.herm_psd) and independent NumPy re-derivations for the large dimensions.
Hamiltonian / Lindbladian exponentials are compared NUMERICALLY (own Taylor series vs the implementation's expm results);
they are not derived in Coq."""
import itertools, math, os, warnings
import numpy as np
from common import flow, qcheck
from common.model import cflat, rflat

LEVEL = "proof"
S2 = math.sqrt(2.0)
TOL = 1e-9          # agreement of alternative descriptions
TTOL = 1e-12        # agreement with an exactly representable table entry
EXC = (ValueError, KeyError, NameError, AssertionError, NotImplementedError, SyntaxError, AttributeError, TypeError, IndexError)

SYS = {"1qubit": ("qubit", 1), "2qubit": ("qubit", 2), "3qubit": ("qubit", 3), "1qutrit": ("qutrit", 1), "2qutrit": ("qutrit", 2)}
SYSDIM = {"1qubit": 2, "2qubit": 4, "3qubit": 8, "1qutrit": 3, "2qutrit": 9}
_cache = {}


class _Q:
    pass


def Q():
    """quara modules, imported once"""
    if "q" not in _cache:
        warnings.simplefilter("ignore")
        q = _Q()
        from quara.objects import (state_typical, povm_typical, gate_typical, mprocess_typical, state_ensemble_typical,
                                   effective_lindbladian_typical, qoperation_typical, composite_system_typical, tester_typical,
                                   matrix_basis, gate, state, povm)
        from quara.objects.operators import compose_qoperations, tensor_product
        q.st, q.pt, q.gt, q.mt, q.et, q.lt, q.qt, q.ct, q.tt = (state_typical, povm_typical, gate_typical, mprocess_typical, state_ensemble_typical,
                                                                effective_lindbladian_typical, qoperation_typical, composite_system_typical, tester_typical)
        q.mb, q.gate, q.state, q.povm = matrix_basis, gate, state, povm
        q.compose, q.tensor = compose_qoperations, tensor_product
        _cache["q"] = q
    return _cache["q"]


def csys(sysname, ids=None):
    key = ("sys", sysname, tuple(ids) if ids else None)
    if key not in _cache:
        mode, num = SYS[sysname]
        _cache[key] = Q().ct.generate_composite_system(mode, num, ids_esys=list(ids) if ids else None)
    return _cache[key]


def dense(b):
    return b.toarray() if hasattr(b, "toarray") else np.asarray(b)


def basis_of(c):
    key = ("basis", id(c))
    if key not in _cache:
        _cache[key] = [np.array(dense(b), dtype=complex) for b in c.basis()]
    return _cache[key]


def bflat(basis):
    out = []
    for b in basis:
        out += cflat(dense(b))
    return out


# ------------------------------------------------------------------ independent NumPy re-derivations
def np_vec(basis, M):
    return np.array([np.vdot(b, M) for b in basis])                       # tr(B_a^dagger M)


def np_hs_from_kraus(basis, Ks):
    Bm = np.array(basis)
    img = sum(np.einsum("ij,bjk,lk->bil", K, Bm, K.conj()) for K in Ks)     # K B_b K^dagger
    return np.einsum("aij,bij->ab", Bm.conj(), img)


def np_lind(basis, H):
    Bm = np.array(basis)
    img = -1j * (np.einsum("ij,bjk->bik", H, Bm) - np.einsum("bij,jk->bik", Bm, H))
    return np.einsum("aij,bij->ab", Bm.conj(), img)


def np_choi(basis, hs):
    d = basis[0].shape[0]
    ch = np.zeros((d * d, d * d), dtype=complex)
    for a, Ba in enumerate(basis):
        for b, Bb in enumerate(basis):
            if hs[a, b] != 0:
                ch += hs[a, b] * np.kron(Ba, Bb.conj())
    return ch


def taylor_expm(A):
    """exp(A) by scaling-and-squaring of a plain Taylor series (independent of scipy.linalg.expm's Pade scheme)"""
    A = np.asarray(A, dtype=complex)
    nrm = float(np.abs(A).sum(axis=1).max()) if A.size else 0.0
    s = max(0, int(math.ceil(math.log2(nrm))) + 1) if nrm > 0.5 else 0
    X = A / (2 ** s)
    term = np.eye(A.shape[0], dtype=complex)
    acc = term.copy()
    for k in range(1, 30):
        term = term @ X / k
        acc = acc + term
    for _ in range(s):
        acc = acc @ acc
    return acc


def mx(a, b):
    a = np.asarray(a); b = np.asarray(b)
    if a.shape != b.shape:
        return float("inf")
    return float(np.abs(a - b).max()) if a.size else 0.0


# ------------------------------------------------------------------ Coq tables
def ev(vals):
    out = []
    for k in range(0, len(vals), 4):
        a, b, c, d = (int(vals[k]), int(vals[k + 1]), int(vals[k + 2]), int(vals[k + 3]))
        out.append(complex(a + c * S2, b + d * S2))
    return out


def tbl_state(ctx, code):
    key = ("ts", tuple(code))
    if key not in _cache:
        v = ctx.get_model().call("c17.state", list(code))
        _cache[key] = np.array(ev(v[2:])) / math.sqrt(int(v[1]))
    return _cache[key]


def tbl_gate(ctx, code):
    key = ("tg", tuple(code))
    if key not in _cache:
        v = ctx.get_model().call("c17.gate", list(code))
        d = int(v[0])
        _cache[key] = np.array(ev(v[2:])).reshape(d, d) / math.sqrt(int(v[1]))
    return _cache[key]


def _fracs(vals, pos, d):
    n = int(vals[pos]); m = np.array(ev(vals[pos + 1:pos + 1 + 4 * d * d])).reshape(d, d) / n
    return m, pos + 1 + 4 * d * d


def tbl_povm(ctx, codes):
    key = ("tp", tuple(codes))
    if key not in _cache:
        v = ctx.get_model().call("c17.povm", list(codes))
        d = int(v[0]); cnt = int(v[1]); pos = 2; out = []
        for _ in range(cnt):
            m, pos = _fracs(v, pos, d); out.append(m)
        _cache[key] = out
    return _cache[key]


def tbl_mproc(ctx, code):
    key = ("tm", code)
    if key not in _cache:
        v = ctx.get_model().call("c17.mproc", [code])
        d = int(v[0]); nout = int(v[1]); pos = 2; out = []
        for _ in range(nout):
            k = int(v[pos]); pos += 1; ks = []
            for _ in range(k):
                m, pos = _fracs(v, pos, d); ks.append(m)
            out.append(ks)
        _cache[key] = out
    return _cache[key]


# ---- names -> table codes: the association lives in Coq (Model/C17_Names.v prints every catalogue name from its table code);
#      the harness only decodes the lists (ops c17.cat / c17.cat2t).  The NAME lists are compared with quara's in sub-check `catalogue`.
SYSN = ["1qubit", "2qubit", "3qubit", "1qutrit", "2qutrit"]


class Cat:
    """decoded named catalogues of Model/C17_Names.v"""

    def __init__(self, model):
        self.m = model
        self.state, self.state_names, self.state_inv = {}, {}, {}
        self.povm, self.povm_names, self.povm_single = {}, {}, {}
        self.gate, self.gate_names, self.gate_inv = {}, {}, {}
        self.mproc, self.mproc_names = {}, []
        self.g2t_single, self.g2t_single_names = {}, []
        for k, sysname in enumerate(SYSN):
            ents = self.entries(model.call("c17.cat", [0, k]))
            self.state_names[sysname] = [n for n, _ in ents]
            for n, code in ents:
                self.state[n] = code; self.state_inv[tuple(code)] = n
            ents = self.entries(model.call("c17.cat", [1, k]))
            self.povm_names[sysname] = [n for n, _ in ents]
            for n, code in ents:
                self.povm[n] = code
                if len(code) == 1:
                    self.povm_single[n] = code[0]
        for k, sysname in enumerate(SYSN[:4]):
            ents = self.entries(model.call("c17.cat", [2, k]))
            self.gate_names[sysname] = [n for n, _ in ents]
            self.gate[sysname] = {n: code[0] for n, code in ents}
            for n, code in ents:
                self.gate_inv[(sysname, code[0])] = n
        for n, code in self.entries(model.call("c17.cat", [3, 0])):
            self.mproc[n] = (code[0], SYSN[code[1]]); self.mproc_names.append(n)
        for n, code in self.entries(model.call("c17.cat", [4, 0])):
            self.g2t_single[n] = tuple(code); self.g2t_single_names.append(n)
        self.n_double = int(model.call("c17.cat2t", [])[0])
        self._dbl = {}

    @staticmethod
    def entries(vals):
        vals = [int(x) for x in vals]; pos = 0; out = []
        while pos < len(vals):
            n = vals[pos]; name = "".join(chr(c) for c in vals[pos + 1:pos + 1 + n]); pos += 1 + n
            k = vals[pos]; code = vals[pos + 1:pos + 1 + k]; pos += 1 + k
            out.append((name, code))
        return out

    def doubles(self, start=None, count=None, indices=None):
        """[(name, [(b0, b1, k), (b0, b1, k)])] for a slice / the given indices of the two-term 2-qutrit names"""
        if indices is None:
            ents = []
            for a in range(start, start + count, 3000):          # (slices: the extracted list functions are not tail recursive)
                ents += self.entries(self.m.call("c17.cat2t", [a, min(3000, start + count - a)]))
        else:
            ents = self.entries(self.m.call("c17.cat2t", [-1] + list(indices)))
        return [(n, [tuple(c[0:3]), tuple(c[3:6])]) for n, c in ents]


def load_cat(ctx):
    if "cat" not in _cache:
        _cache["cat"] = Cat(ctx.get_model())
    return _cache["cat"]


def CAT():
    return _cache["cat"]              # (load_cat(ctx) is called first thing in run / replay)


def state_code(name):
    return CAT().state.get(name)


def gate_code(sysname, name, ids):
    """table code of a gate name on a listed system with the given id order (positions = rank of the id)"""
    d = SYSDIM[sysname]
    if name == "identity":
        return [0, d]
    if sysname == "2qutrit":
        t = CAT().g2t_single.get(name)
        return [5] + list(t) if t is not None else None
    k = CAT().gate[sysname].get(name)
    if k is None:
        return None
    if sysname == "1qubit":
        return [1, k]
    if sysname == "2qubit":
        return [2, k, 1 if ids[0] > ids[1] else 0]
    if sysname == "3qubit":
        srt = sorted(ids)
        return [3, k] + [srt.index(i) for i in ids]
    return [4, k]


ROLES = {"toffoli": "ids[0], ids[1] control, ids[2] target", "fredkin": "ids[0] control, ids[1], ids[2] swapped"}


def inverse_ids(ids):
    """inverse of the permutation i -> ids[i] (ids a permutation of 0..n-1), else None"""
    if sorted(ids) != list(range(len(ids))):
        return None
    inv = [0] * len(ids)
    for i, v in enumerate(ids):
        inv[v] = i
    return inv


def V(ctx, sub, site, sig, what, case):
    ctx.violation(sub, site, sig, what, case)


def psd_exact(ctx, M, shift=TOL):
    return qcheck.herm_psd(ctx, M, shift)


# ================================================================== 0. catalogue name lists: quara vs Model/C17_Names.v
def chk_catalogue(ctx, case):
    """the NAME lists of quara's get_*_names* functions against the named catalogues printed in Coq from the table codes
    (the lists the theorems C17_catalogue_names_distinct / C17_named_* quantify over): same names, no duplicates"""
    q = Q(); cat = CAT(); fam = case["family"]; sysname = case.get("sys")
    def cmp(site, got, want):
        ctx.count("catalogue", key=(fam, sysname), nontrivial=True, label=fam)
        got = list(got)
        dup = sorted({n for n in got if got.count(n) > 1}) if len(got) < 2000 else ([] if len(set(got)) == len(got) else ["(duplicates)"])
        missing = [n for n in want if n not in set(got)]; extra = [n for n in got if n not in set(want)]
        if dup or missing or extra:
            V(ctx, "catalogue", site, "catalogue-differs-from-spec", "%s: %d names, Coq catalogue %d; missing %s, not in the Coq catalogue %s, duplicated %s" % (
                site, len(got), len(want), missing[:5], extra[:5], dup[:5]), case)
    if fam == "state":
        cmp("state_typical.get_state_names_%s" % sysname, getattr(q.st, "get_state_names_%s" % sysname)(), cat.state_names[sysname])
    elif fam == "povm":
        cmp("povm_typical.get_povm_names_%s" % sysname, getattr(q.pt, "get_povm_names_%s" % sysname)(), cat.povm_names[sysname])
    elif fam == "gate":
        cmp("gate_typical.get_gate_names_%s" % sysname, getattr(q.gt, "get_gate_names_%s" % sysname)(), cat.gate_names[sysname])
    elif fam == "mprocess":
        cmp("mprocess_typical.get_mprocess_names_type1/2", q.mt.get_mprocess_names_type1() + q.mt.get_mprocess_names_type2(), cat.mproc_names)
        cmp("povm_typical.get_povm_names_rank1", sorted(q.pt.get_povm_names_rank1() + q.pt.get_povm_names_not_rank1()), sorted(cat.povm_single))
    elif fam == "gate2t-single":
        cmp("gate_typical.get_gate_names_2qutrit_single_base_matrix", q.gt.get_gate_names_2qutrit_single_base_matrix(), cat.g2t_single_names)
    elif fam == "gate2t-double":
        got = q.gt.get_gate_names_2qutrit_two_base_matrices()
        ctx.count("catalogue", key=(fam, case.get("all")), nontrivial=True, label=fam)
        if len(got) != cat.n_double or len(set(got)) != len(got):
            V(ctx, "catalogue", "gate_typical.get_gate_names_2qutrit_two_base_matrices", "catalogue-differs-from-spec",
              "%d two-term 2-qutrit names (%d distinct), Coq catalogue %d" % (len(got), len(set(got)), cat.n_double), case); return
        if case.get("all"):
            want = [n for n, _ in cat.doubles(0, cat.n_double)]; idx = range(len(want))
        else:
            idx = case["indices"]; want = [n for n, _ in cat.doubles(indices=idx)]
        bad = [(i, got[i], w) for i, w in zip(idx, want) if got[i] != w]
        if bad:
            V(ctx, "catalogue", "gate_typical.get_gate_names_2qutrit_two_base_matrices", "catalogue-differs-from-spec",
              "name %d is %r, Coq catalogue %r (%d of %d compared positions differ)" % (bad[0] + (len(bad), len(want))), case)
        all2 = q.gt.get_gate_names_2qutrit()
        if len(all2) != len(set(all2)) or set(all2) != set(got) | set(cat.g2t_single_names):
            V(ctx, "catalogue", "gate_typical.get_gate_names_2qutrit", "catalogue-differs-from-spec", "get_gate_names_2qutrit is not the duplicate-free union of its two sub-lists", case)


def sub_catalogue(ctx):
    cases = [{"family": f, "sys": sysname} for f in ("state", "povm") for sysname in SYSN] + [{"family": "gate", "sys": sysname} for sysname in SYSN[:4]]
    cases += [{"family": "mprocess"}, {"family": "gate2t-single"}]
    cases.append({"family": "gate2t-double", "all": True} if not ctx.quick else {"family": "gate2t-double", "indices": sorted(ctx.rng.sample(range(CAT().n_double), 3000))})
    ctx.sample("catalogue", cases[2]); ctx.run_cases("catalogue", FNS["catalogue"], cases)


# ================================================================== 1. named matrix bases
BASIS_EXPECT = {0: (True, True, False, False), 1: (True, True, False, False), 2: (True, False, True, True), 3: (True, True, True, True),
                4: (True, False, True, False), 5: (True, True, True, False), 6: (True, False, True, True), 7: (True, True, True, True),
                8: (True, False, True, True), 9: (True, True, True, True)}


def impl_basis(kind, n, dim):
    mb = Q().mb
    return {0: lambda: mb.get_comp_basis(dim), 1: lambda: mb.get_comp_basis(dim, mode="column_major"), 2: lambda: mb.get_pauli_basis(n),
            3: lambda: mb.get_normalized_pauli_basis(n), 4: lambda: mb.get_hermitian_basis(dim), 5: lambda: mb.get_normalized_hermitian_basis(dim),
            6: lambda: mb.get_gell_mann_basis(), 7: lambda: mb.get_normalized_gell_mann_basis(),
            8: lambda: mb.get_generalized_gell_mann_basis(n, dim), 9: lambda: mb.get_normalized_generalized_gell_mann_basis(n, dim)}[kind]()


def chk_basis(ctx, case):
    kind, n, dim = case["kind"], case["n"], case["dim"]
    site = "matrix_basis.named_basis[kind=%d]" % kind
    if case.get("csys"):
        b = csys(case["csys"]).basis(); site = "composite_system_typical.generate_composite_system"
    else:
        b = impl_basis(kind, n, dim)
    mats = [dense(x) for x in b]
    r = ctx.get_model().call("c17.basis_chk", [kind, n, dim], [S2] + bflat(mats))
    d, cnt, nread, bad, res = int(r[0]), int(r[1]), int(r[2]), int(r[3]), float(r[4])
    ctx.count("bases", key=(kind, n, dim, case.get("csys")), nontrivial=True, label="kind%d" % kind)
    if len(mats) != cnt or nread != cnt * d * d or mats[0].shape != (d, d):
        V(ctx, "bases", site, "shape", "basis has %d elements of shape %s, table %d of %dx%d" % (len(mats), mats[0].shape, cnt, d, d), case)
    elif bad or res > TTOL:
        V(ctx, "bases", site, "differs-from-table", "named basis differs from the Coq table: %d sign disagreements, max |f^2 N - e^2| = %.3g" % (bad, res), case)
    if not case.get("csys") and kind != 1:
        got = (bool(b.is_orthogonal()), bool(b.is_normal()), bool(b.is_hermitian()), bool(b.is_0thpropI()))
        if got != BASIS_EXPECT[kind]:
            V(ctx, "bases", site, "verdict-methods", "is_orthogonal/is_normal/is_hermitian/is_0thpropI = %s, table theorems say %s" % (got, BASIS_EXPECT[kind]), case)


def sub_bases(ctx):
    cases = []
    for d in (2, 3, 4):
        for k in (0, 1, 4, 5):
            cases.append({"kind": k, "n": 1, "dim": d})
    for n in (1, 2, 3) + (() if ctx.quick else (4,)):
        cases += [{"kind": 2, "n": n, "dim": 2}, {"kind": 3, "n": n, "dim": 2}]
    cases += [{"kind": 6, "n": 1, "dim": 3}, {"kind": 7, "n": 1, "dim": 3}]
    for n, d in ((1, 2), (1, 3), (1, 4), (2, 2), (2, 3)) + (() if ctx.quick else ((1, 5), (3, 2))):
        cases += [{"kind": 8, "n": n, "dim": d}, {"kind": 9, "n": n, "dim": d}]
    cases += [{"kind": 3, "n": 1, "dim": 2, "csys": "1qubit"}, {"kind": 3, "n": 2, "dim": 2, "csys": "2qubit"}, {"kind": 3, "n": 3, "dim": 2, "csys": "3qubit"},
              {"kind": 7, "n": 1, "dim": 3, "csys": "1qutrit"}, {"kind": 9, "n": 2, "dim": 3, "csys": "2qutrit"}]
    ctx.sample("bases", cases[5]); ctx.run_cases("bases", FNS["bases"], cases)


# ================================================================== 2. states
def state_lists():
    st = Q().st
    return {"1qubit": st.get_state_names_1qubit(), "2qubit": st.get_state_names_2qubit(), "3qubit": st.get_state_names_3qubit(),
            "1qutrit": st.get_state_names_1qutrit(), "2qutrit": st.get_state_names_2qutrit()}


def chk_states(ctx, case):
    q = Q(); sysname = case["sys"]; names = case["names"]; c = csys(sysname); d = c.dim; basis = basis_of(c)
    gen = q.qt.generate_state_object
    site = "state_typical.generate_state_object_from_state_name_object_name"
    if case.get("light"):
        return chk_states_light(ctx, case)
    objs = []
    for n in names:
        one = {"sys": sysname, "names": [n], "exact": case.get("exact", True)}
        try:
            v = gen(n, "pure_state_vector"); dm = gen(n, "density_mat"); vec = gen(n, "density_matrix_vector", c); s = gen(n, "state", c)
            s2 = q.qt.generate_qoperation("state", n, c)
        except Exception as e:
            ctx.count("states", key=(sysname, n), label=sysname + "-raise")
            V(ctx, "states", site, "listed-name-not-generable", "state %r on %s: %s: %s" % (n, sysname, type(e).__name__, str(e)[:200]), one)
            continue
        objs.append((n, one, np.asarray(v), np.asarray(dm), np.asarray(vec), s, s2))
    if not objs:
        return
    # model: pure vector -> density -> coefficient vector w.r.t. the implementation's basis (batched)
    r = ctx.get_model().call("c17.vecs", [d, len(objs)], bflat(basis) + [x for o in objs for x in cflat(o[2])])
    r = [float(x) for x in r]
    for idx, (n, one, v, dm, vec, s, s2) in enumerate(objs):
        mvec = np.array(r[idx * (d * d + 1): idx * (d * d + 1) + d * d]); nrm = r[idx * (d * d + 1) + d * d]
        code = state_code(n)
        ctx.count("states", key=(sysname, n), nontrivial=True, label=sysname + ("" if code else "-notable"))
        if v.shape != (d,):
            V(ctx, "states", site, "shape", "pure vector of %r has shape %s on %s" % (n, v.shape, sysname), one); continue
        if code is not None:
            t = tbl_state(ctx, code)
            if mx(v, t) > TTOL:
                V(ctx, "states", "state_typical.generate_state_pure_state_vector_from_name", "differs-from-table",
                  "pure vector of %r differs from the textbook table by %.3g" % (n, mx(v, t)), one)
        if abs(nrm - 1) > TTOL:
            V(ctx, "states", site, "not-normalised", "<v|v> = %.17g for %r" % (nrm, n), one)
        if mx(dm, np.outer(v, v.conj())) > TTOL:
            V(ctx, "states", "state_typical.generate_state_density_mat_from_name", "density-vs-vector", "density_mat of %r is not |v><v| (%.3g)" % (n, mx(dm, np.outer(v, v.conj()))), one)
        if mx(vec, mvec) > TOL or abs(np.asarray(vec).imag).max() > TOL:
            V(ctx, "states", "state_typical.generate_state_density_matrix_vector_from_name", "vec-vs-model", "density_matrix_vector of %r differs from model vec_of_pure by %.3g" % (n, mx(vec, mvec)), one)
        if mx(s.vec, mvec) > TOL or mx(s2.vec, mvec) > TOL:
            V(ctx, "states", "state_typical.generate_state_from_name", "state-vs-model", "State.vec of %r differs from model vec_of_pure by %.3g" % (n, mx(s.vec, mvec)), one)
        rho = sum(x * b for x, b in zip(np.asarray(s.vec, dtype=float), basis))           # own reconstruction
        if mx(rho, dm) > TOL or mx(s.to_density_matrix(), dm) > TOL:
            V(ctx, "states", "state_typical.generate_state_from_name", "state-vs-density", "State %r does not denote its density_mat (%.3g)" % (n, mx(rho, dm)), one)
        phys_ok = bool(s.is_physical()) and abs(np.trace(rho) - 1) <= TOL and float(np.linalg.eigvalsh((rho + rho.conj().T) / 2).min()) >= -TOL
        if phys_ok and case.get("exact", True):
            phys_ok = psd_exact(ctx, rho)
        if not phys_ok:
            V(ctx, "states", "state_typical.generate_state_from_name", "unphysical", "state %r on %s is not physical (verdict %s, trace %.12g)" % (n, sysname, s.is_physical(), np.trace(rho).real), one)


def chk_states_light(ctx, case):
    """quick tier, 8- and 9-dimensional systems: EVERY listed name is generated as pure vector and density matrix and compared with
    the Coq table (product tables are evaluated by the model: st_prod); the remaining object forms (coefficient vector, State object,
    physicality) are checked by chk_states on a seeded sample of these names and on all of them in the thorough tier"""
    q = Q(); sysname = case["sys"]; d = SYSDIM[sysname]; gen = q.qt.generate_state_object
    site = "state_typical.generate_state_object_from_state_name_object_name"
    for n in case["names"]:
        one = {"sys": sysname, "names": [n], "light": True}
        code = state_code(n)
        ctx.count("states", key=(sysname, n, "light"), nontrivial=code is not None, label=sysname + "-light")
        try:
            v = np.asarray(gen(n, "pure_state_vector")); dm = np.asarray(gen(n, "density_mat"))
        except Exception as e:
            V(ctx, "states", site, "listed-name-not-generable", "state %r on %s: %s: %s" % (n, sysname, type(e).__name__, str(e)[:200]), one); continue
        if v.shape != (d,):
            V(ctx, "states", site, "shape", "pure vector of %r has shape %s on %s" % (n, v.shape, sysname), one); continue
        if code is None:
            V(ctx, "states", "state_typical.get_state_names", "name-not-in-table", "listed state name %r on %s has no textbook table" % (n, sysname), one); continue
        t = tbl_state(ctx, code)
        if mx(v, t) > TTOL:
            V(ctx, "states", "state_typical.generate_state_pure_state_vector_from_name", "differs-from-table",
              "pure vector of %r differs from the textbook table by %.3g" % (n, mx(v, t)), one)
        if mx(dm, np.outer(v, v.conj())) > TTOL:
            V(ctx, "states", "state_typical.generate_state_density_mat_from_name", "density-vs-vector", "density_mat of %r is not |v><v| (%.3g)" % (n, mx(dm, np.outer(v, v.conj()))), one)


def legacy_states(ctx, case):
    q = Q(); c1 = csys("1qubit"); c2 = csys("2qubit")
    for n in ("x0", "x1", "y0", "y1", "z0", "z1", "a"):
        ref = q.st.generate_state_from_name(c1, n)
        fns = [("state_typical.get_state_%s_1q" % n, getattr(q.st, "get_state_%s_1q" % n, None))]
        if n != "a":
            fns.append(("state.get_%s_1q" % n, getattr(q.state, "get_%s_1q" % n, None)))
        for site, f in fns:
            ctx.count("states", key=("legacy", site), label="legacy")
            if f is None:
                V(ctx, "states", site, "missing", "legacy constructor missing", case); continue
            o = f(c1)
            if mx(o.vec, ref.vec) > TOL or not o.is_physical():
                V(ctx, "states", site, "legacy-differs", "legacy %s differs from catalogue state %r by %.3g" % (site, n, mx(o.vec, ref.vec)), case)
    ref = q.st.generate_state_from_name(c2, "bell_phi_plus")
    for site, f in (("state_typical.get_state_bell_2q", q.st.get_state_bell_2q), ("state.get_bell_2q", q.state.get_bell_2q)):
        ctx.count("states", key=("legacy", site), label="legacy")
        if mx(f(c2).vec, ref.vec) > TOL:
            V(ctx, "states", site, "legacy-differs", "legacy Bell state differs from bell_phi_plus by %.3g" % mx(f(c2).vec, ref.vec), case)
    # tester_typical: product states on 2 systems are the catalogue's product names
    for sysname, singles in (("2qubit", ["x0", "y1", "z1", "a"]), ("2qutrit", ["01x0", "12y1", "02z1"])):
        c = csys(sysname)
        ts = q.tt.generate_tester_states(c, singles)
        for (a, b), s in zip(itertools.product(singles, repeat=2), ts):
            ref = q.st.generate_state_from_name(c, a + "_" + b)
            ctx.count("states", key=("tester", sysname, a, b), label="tester")
            if mx(s.vec, ref.vec) > TOL:
                V(ctx, "states", "tester_typical.generate_tester_states", "tester-differs", "tester state (%s,%s) differs from catalogue %s_%s by %.3g" % (a, b, a, b, mx(s.vec, ref.vec)), case)


def chk_states_any(ctx, case):
    if case.get("legacy"):
        return legacy_states(ctx, case)
    return chk_states(ctx, case)


def sub_states(ctx):
    lists = state_lists()
    cases = []; nfull = 0
    for sysname, names in lists.items():
        big = SYSDIM[sysname] >= 8
        if big and ctx.quick:
            # every name: pure vector / density matrix against the table; all object forms on the non-product names and a seeded sample
            special = [n for n in names if "_" not in n or state_code(n) is None or state_code(n)[0] not in (0, 4)]
            full = special + ctx.rng.sample([n for n in names if n not in special], 8)
            for i in range(0, len(names), 60):
                cases.append({"sys": sysname, "names": names[i:i + 60], "light": True})
        else:
            full = names
        nfull += len(full)
        for i in range(0, len(full), 40):
            cases.append({"sys": sysname, "names": full[i:i + 40], "exact": True})
    cases.append({"legacy": True})
    ctx.sample("states", {"sys": "2qubit", "names": lists["2qubit"][:3]}); ctx.run_cases("states", FNS["states"], cases)
    ctx.note("states: all %d listed (system, name) pairs generated and compared with the table as pure vector and density matrix; all object forms, model vec_of_pure and the exact PSD "
             "decision on %d of them (quick tier: every 1-/2-qubit and 1-qutrit name, the non-product 3-qubit / 2-qutrit names and a seeded sample of 8 product names each; thorough tier: all)" % (
                 sum(len(v) for v in lists.values()), nfull))


# ================================================================== 3. POVMs
def povm_lists():
    pt = Q().pt
    return {"1qubit": pt.get_povm_names_1qubit(), "2qubit": pt.get_povm_names_2qubit(), "3qubit": pt.get_povm_names_3qubit(),
            "1qutrit": pt.get_povm_names_1qutrit(), "2qutrit": pt.get_povm_names_2qutrit()}


def chk_povm(ctx, case):
    q = Q(); sysname, n = case["sys"], case["name"]; c = csys(sysname); d = c.dim; basis = basis_of(c)
    site = "povm_typical.generate_povm_object_from_povm_name_object_name"
    parts = n.split("_")
    rank1 = all(p in q.pt.get_povm_names_rank1() for p in parts)
    light = bool(case.get("light"))
    ctx.count("povms", key=(sysname, n, light), nontrivial=True, label=sysname + ("-light" if light else ""))
    try:
        pv = q.qt.generate_povm_object(n, "pure_state_vectors") if rank1 else None
        ms = q.qt.generate_povm_object(n, "matrices")
        if not light:
            vs = q.pt.generate_povm_object_from_povm_name_object_name(n, "vectors", basis=c.basis())
            p = q.qt.generate_povm_object(n, "povm", c)
            p2 = q.qt.generate_qoperation("povm", n, c)
    except Exception as e:
        V(ctx, "povms", site, "listed-name-not-generable", "POVM %r on %s: %s: %s" % (n, sysname, type(e).__name__, str(e)[:200]), case); return
    ms = [np.asarray(m) for m in ms]
    if n in CAT().povm:
        t = tbl_povm(ctx, CAT().povm[n])
        if len(t) != len(ms) or max(mx(a, b) for a, b in zip(ms, t)) > TTOL:
            V(ctx, "povms", "povm_typical.generate_povm_matrices_from_name", "differs-from-table", "POVM %r: %d elements, table %d, max difference %.3g" % (
                n, len(ms), len(t), max([mx(a, b) for a, b in zip(ms, t)] + [0])), case)
    else:
        V(ctx, "povms", "povm_typical.get_povm_names", "name-not-in-table", "listed POVM name %r on %s has no textbook table" % (n, sysname), case)
    if pv is not None:
        if len(pv) != len(ms) or max(mx(np.outer(v, np.conj(v)), m) for v, m in zip(pv, ms)) > TTOL:
            V(ctx, "povms", site, "matrices-vs-vectors", "POVM %r: matrices are not the projectors of pure_state_vectors" % n, case)
    if light:
        # quick tier, 8- / 9-dimensional systems: the remaining forms (vectors, Povm object, physicality) are checked on a seeded sample
        return
        # model: pure vectors -> coefficient vectors
        if case.get("model", True):
            r = [float(x) for x in ctx.get_model().call("c17.vecs", [d, len(pv)], bflat(basis) + [x for v in pv for x in cflat(v)])]
            for i in range(len(pv)):
                mvec = np.array(r[i * (d * d + 1): i * (d * d + 1) + d * d])
                if mx(vs[i], mvec) > TOL or mx(p.vecs[i], mvec) > TOL:
                    V(ctx, "povms", "povm_typical.generate_povm_vectors_from_name", "vec-vs-model", "POVM %r element %d: vectors / Povm.vecs differ from model vec_of_pure (%.3g)" % (n, i, mx(vs[i], mvec)), case); break
    if len(p.vecs) != len(ms) or len(vs) != len(ms):
        V(ctx, "povms", site, "count", "POVM %r: %d matrices, %d vectors, %d Povm elements" % (n, len(ms), len(vs), len(p.vecs)), case); return
    own = [sum(x * b for x, b in zip(np.asarray(v, dtype=float), basis)) for v in p.vecs]
    if max(mx(a, b) for a, b in zip(own, ms)) > TOL or max(mx(a, b) for a, b in zip(vs, p.vecs)) > TOL or mx(np.array(p2.vecs), np.array(p.vecs)) > TOL \
            or max(mx(np_vec(basis, m), v) for m, v in zip(ms, vs)) > TOL:
        V(ctx, "povms", site, "descriptions-disagree", "POVM %r: matrices / vectors / Povm object denote different operators" % n, case)
    ok = bool(p.is_physical()) and mx(sum(own), np.eye(d)) <= TOL and all(float(np.linalg.eigvalsh((m + m.conj().T) / 2).min()) >= -TOL for m in own)
    if ok and case.get("exact", True):
        ok = all(psd_exact(ctx, m) for m in own)
    if not ok:
        V(ctx, "povms", "povm_typical.generate_povm_from_name", "unphysical", "POVM %r on %s is not physical (verdict %s, |sum - I| = %.3g)" % (n, sysname, p.is_physical(), mx(sum(own), np.eye(d))), case)


def legacy_povms(ctx, case):
    q = Q()
    c1, c2 = csys("1qubit"), csys("2qubit")
    for a in "xyz":
        ref = q.pt.generate_povm_from_name(a, c1); o = getattr(q.povm, "get_%s_povm" % a)(c1)
        ctx.count("povms", key=("legacy", a), label="legacy")
        if mx(np.array(o.vecs), np.array(ref.vecs)) > TOL:
            V(ctx, "povms", "povm.get_%s_povm" % a, "legacy-differs", "legacy POVM differs from catalogue %r" % a, case)
    for a, b in itertools.product("xyz", repeat=2):
        ref = q.pt.generate_povm_from_name(a + "_" + b, c2); o = getattr(q.povm, "get_%s%s_povm" % (a, b))(c2)
        ctx.count("povms", key=("legacy", a + b), label="legacy")
        if mx(np.array(o.vecs), np.array(ref.vecs)) > TOL:
            V(ctx, "povms", "povm.get_%s%s_povm" % (a, b), "legacy-differs", "legacy POVM differs from catalogue %s_%s by %.3g" % (a, b, mx(np.array(o.vecs), np.array(ref.vecs))), case)
    ts = q.tt.generate_tester_povms(c2, ["x", "z"])
    for (a, b), p in zip(itertools.product(["x", "z"], repeat=2), ts):
        ref = q.pt.generate_povm_from_name(a + "_" + b, c2)
        ctx.count("povms", key=("tester", a, b), label="tester")
        if mx(np.array(p.vecs), np.array(ref.vecs)) > TOL:
            V(ctx, "povms", "tester_typical.generate_tester_povms", "tester-differs", "tester POVM (%s,%s) differs from the catalogue's product name" % (a, b), case)
    # Born rule on the 1-qubit names: POVM a measured on its own eigenstates
    for a in "xyz":
        p = q.pt.generate_povm_from_name(a, c1)
        for k in (0, 1):
            s = q.st.generate_state_from_name(c1, "%s%d" % (a, k))
            pr = [float(np.dot(v, s.vec)) for v in p.vecs]
            ctx.count("povms", key=("born", a, k), label="born")
            if abs(pr[k] - 1) > TOL or abs(pr[1 - k]) > TOL:
                V(ctx, "povms", "povm_typical.generate_povm_from_name", "born-eigenstate", "POVM %r on state %s%d gives %s" % (a, a, k, pr), case)


def chk_povm_any(ctx, case):
    if case.get("legacy"):
        return legacy_povms(ctx, case)
    return chk_povm(ctx, case)


def sub_povms(ctx):
    lists = povm_lists(); cases = []; nfull = 0
    for sysname, names in lists.items():
        big = SYSDIM[sysname] >= 8
        full = set(names) if (not big or not ctx.quick) else set(ctx.rng.sample(names, 5))
        for n in names:
            if n in full:
                cases.append({"sys": sysname, "name": n, "exact": True, "model": True}); nfull += 1
            else:
                cases.append({"sys": sysname, "name": n, "light": True})
    cases.append({"legacy": True})
    ctx.sample("povms", cases[4]); ctx.run_cases("povms", FNS["povms"], cases)
    ctx.note("povms: all %d listed (system, name) pairs generated as matrices (and pure_state_vectors for rank-1 names) and compared with the table; vectors / Povm object / "
             "model vec_of_pure / exact PSD decision on %d of them (quick tier: every 1-/2-qubit and 1-qutrit name and a seeded sample of 5 per 8-/9-dimensional system; thorough tier: all)" % (
                 sum(len(v) for v in lists.values()), nfull))


# ================================================================== 4. gates and effective Lindbladians (1-3 qubits, 1 qutrit)
def gate_cases(ctx):
    gt = Q().gt; cases = []
    for n in ["identity"] + gt.get_gate_names_1qubit():
        cases.append({"sys": "1qubit", "name": n, "ids": [0], "esys": None})
    cases.append({"sys": "1qubit", "name": "hadamard", "ids": [5], "esys": [5]})
    for n in ["identity"] + gt.get_gate_names_2qubit():
        for esys in (None, [3, 7]):
            base = esys or [0, 1]
            for ids in (base, base[::-1]):
                cases.append({"sys": "2qubit", "name": n, "ids": list(ids), "esys": esys})
    for n in ["identity"] + gt.get_gate_names_3qubit():
        for ids in itertools.permutations(range(3)):
            cases.append({"sys": "3qubit", "name": n, "ids": list(ids), "esys": None})
            if n == "identity":
                break
    for n in ["identity"] + gt.get_gate_names_1qutrit():
        cases.append({"sys": "1qutrit", "name": n, "ids": [0], "esys": None})
    return cases


def chk_gate(ctx, case, light=False):
    """all descriptions of one gate name on one listed system"""
    q = Q(); sysname, n, ids = case["sys"], case["name"], case["ids"]
    c = csys(sysname, case.get("esys")); d = c.dim; basis = basis_of(c)
    dims = [2] * SYS[sysname][1] if SYS[sysname][0] == "qubit" else [3] * SYS[sysname][1]
    # case flags (all default to the complete check; the quick tier switches parts off on the 8-dimensional system, see sub_gates):
    #   full     model HS / generator also at d = 8
    #   elphys   ask the Lindbladian object's physicality verdict (default: = full; 2 s at d = 8)
    #   light    only unitary_mat, gate_mat, hamiltonian_mat (table, unitarity, unitary -> HS, exp(-iH)); no objects
    #   verdict  build the Gate objects with is_physicality_required=True and ask Gate.is_physical() (at d = 8 the first such call
    #            costs ~6 s inside quara: it tabulates B_a (x) conj(B_b) for the whole basis)
    #   el_required  build the EffectiveLindbladian with is_physicality_required=full (otherwise False and is_physical() is called once)
    full = case.get("full", True); light = case.get("light", False); verdict = case.get("verdict", True); el_required = case.get("el_required", True)
    elphys = case.get("elphys", full)
    site = "gate_typical.generate_gate_object_from_gate_name_object_name"
    ctx.count("gates", key=(sysname, n, tuple(ids), tuple(case.get("esys") or ())), nontrivial=n != "identity", label=sysname + ("-light" if light else ""))
    try:
        u = np.asarray(q.qt.generate_gate_object(n, "unitary_mat", dims=dims, ids=ids))
        gm = np.asarray(q.qt.generate_gate_object(n, "gate_mat", dims=dims, ids=ids))
        hm = np.asarray(q.qt.generate_effective_lindbladian_object(n, "hamiltonian_mat", dims=dims, ids=ids))
        if not light:
            g = q.qt.generate_gate_object(n, "gate", dims=dims, ids=ids, c_sys=c, is_physicality_required=verdict)
            g2 = q.qt.generate_qoperation("gate", n, c, ids=ids, is_physicality_required=verdict)
            hv = np.asarray(q.qt.generate_effective_lindbladian_object(n, "hamiltonian_vec", dims=dims, ids=ids))
            lm = np.asarray(q.qt.generate_effective_lindbladian_object(n, "effective_lindbladian_mat", dims=dims, ids=ids))
            el = q.qt.generate_effective_lindbladian_object(n, "effective_lindbladian", dims=dims, ids=ids, c_sys=c, is_physicality_required=elphys and el_required)
    except Exception as e:
        V(ctx, "gates", site, "listed-name-not-generable", "gate %r ids %s on %s: %s: %s" % (n, ids, sysname, type(e).__name__, str(e)[:200]), case); return
    if u.shape != (d, d) or gm.shape != (d * d, d * d) or hm.shape != (d, d) or (not light and (lm.shape != (d * d, d * d) or hv.shape != (d * d,))):
        V(ctx, "gates", site, "shape", "gate %r on %s: shapes %s %s %s" % (n, sysname, u.shape, gm.shape, hm.shape), case); return
    m = ctx.get_model()
    # --- textbook table
    code = gate_code(sysname, n, ids)
    if code is not None:
        t = tbl_gate(ctx, code)
        if mx(u, t) > (TTOL if sysname in ("1qubit", "2qubit") else TOL):
            inv = inverse_ids(ids) if sysname == "3qubit" else None
            if inv is not None and inv != list(ids) and mx(u, tbl_gate(ctx, gate_code(sysname, n, inv))) <= TOL:
                V(ctx, "gates", "gate_typical.permute_pauli_symbol", "ids-cyclic-permutation-inverted",
                  "%s with ids %s (roles: %s) is generated as the textbook gate for the INVERSE id permutation %s" % (n, ids, ROLES[n], inv), case)
            else:
                V(ctx, "gates", "gate_typical.generate_unitary_mat_from_gate_name", "differs-from-table",
                  "unitary of %r ids %s differs from the textbook table by %.3g" % (n, ids, mx(u, t)), case)
    # --- unitary (model: exact residual of the float matrix)
    ures = float(m.call("c17.unitary_res", [d], cflat(u))[0])
    if ures > TOL:
        V(ctx, "gates", "gate_typical.generate_unitary_mat_from_gate_name", "not-unitary", "|U^dagger U - I| = %.3g for %r" % (ures, n), case)
    # --- unitary -> HS: model (QObj.hs_of_kraus [U]) and NumPy
    hs_np = np_hs_from_kraus(basis, [u])
    if abs(hs_np.imag).max() > TOL or mx(hs_np.real, gm) > TOL:
        V(ctx, "gates", "gate_typical.generate_gate_mat_from_gate_name", "unitary-vs-hs", "gate_mat of %r ids %s is not the HS matrix of its unitary_mat (%.3g)" % (n, ids, mx(hs_np.real, gm)), case)
    if d <= 4 or full:
        r = [float(x) for x in m.call("c17.hs_kraus", [d, 1], bflat(basis) + cflat(u))]
        hs_m = np.array(r[:-1]).reshape(d * d, d * d)
        if r[-1] > TOL or mx(hs_m, gm) > TOL:
            V(ctx, "gates", "gate_typical.generate_gate_mat_from_gate_name", "unitary-vs-hs", "gate_mat of %r ids %s differs from model hs_of_kraus [U] by %.3g" % (n, ids, mx(hs_m, gm)), case)
    # --- Hamiltonian matrix: Hermitian, exponential (numerical)
    if mx(hm, hm.conj().T) > TOL:
        V(ctx, "gates", "effective_lindbladian_typical.generate_hamiltonian_mat_from_gate_name", "not-hermitian", "hamiltonian_mat of %r ids %s is not Hermitian (%.3g)" % (n, ids, mx(hm, hm.conj().T)), case)
    ue = taylor_expm(-1j * hm)
    if mx(ue, u) > TOL:
        V(ctx, "gates", "effective_lindbladian_typical.generate_hamiltonian_mat_from_gate_name", "exp-hamiltonian-vs-unitary", "exp(-iH) differs from unitary_mat of %r ids %s by %.3g (numerical)" % (n, ids, mx(ue, u)), case)
    if light:
        return
    if mx(g.hs, gm) > TOL or mx(g2.hs, gm) > TOL:
        V(ctx, "gates", "gate_typical.generate_gate_from_gate_name", "gate-vs-hs", "Gate object of %r ids %s differs from gate_mat by %.3g" % (n, ids, mx(g.hs, gm)), case)
    # --- physical: verdicts, TP row, CP by exact PSD of the Choi matrix (built here from HS and basis); at d = 8 CP follows from
    #     HS = hs_of_kraus [U] checked above (stated in ctx.assumptions)
    ver = bool(g.is_physical()) if verdict else None
    ok = ver is not False and mx(g.hs[0], np.eye(d * d)[0]) <= TOL
    if ok and d <= 4:
        ok = psd_exact(ctx, np_choi(basis, np.asarray(g.hs, dtype=float)))
    if not ok:
        V(ctx, "gates", "gate_typical.generate_gate_from_gate_name", "unphysical", "gate %r ids %s on %s is not physical (verdict %s)" % (n, ids, sysname, ver), case)
    # --- Hamiltonian: vector <-> matrix (model op_of_vec)
    if d <= 4:
        hm_m = np.array(flow_c(m.call("c17.opvec", [d], bflat(basis) + rflat(hv)))).reshape(d, d)
    else:
        hm_m = sum(x * b for x, b in zip(hv, basis))
    if mx(hm_m, hm) > TOL:
        V(ctx, "gates", "effective_lindbladian_typical.generate_hamiltonian_vec_from_gate_name", "hvec-vs-hmat", "hamiltonian_vec of %r ids %s does not denote hamiltonian_mat (%.3g)" % (n, ids, mx(hm_m, hm)), case)
    # --- generator: model lind_of_ham, object, exponential (numerical)
    L_np = np_lind(basis, hm)
    if abs(L_np.imag).max() > TOL or mx(L_np.real, lm) > TOL:
        V(ctx, "gates", "effective_lindbladian_typical.generate_effective_lindbladian_mat_from_gate_name", "lindbladian-vs-hamiltonian", "effective_lindbladian_mat of %r ids %s is not -i[H,.] (%.3g)" % (n, ids, mx(L_np.real, lm)), case)
    if d <= 4 or full:
        r = [float(x) for x in m.call("c17.lind", [d], bflat(basis) + cflat(hm))]
        L_m = np.array(r[:-1]).reshape(d * d, d * d)
        if r[-1] > TOL or mx(L_m, lm) > TOL:
            V(ctx, "gates", "effective_lindbladian_typical.generate_effective_lindbladian_mat_from_gate_name", "lindbladian-vs-hamiltonian", "effective_lindbladian_mat of %r ids %s differs from model lind_of_ham by %.3g" % (n, ids, mx(L_m, lm)), case)
    if mx(el.hs, lm) > TOL:
        V(ctx, "gates", "effective_lindbladian_typical.generate_effective_lindbladian_from_gate_name", "object-vs-mat", "EffectiveLindbladian of %r ids %s differs from effective_lindbladian_mat (%.3g)" % (n, ids, mx(el.hs, lm)), case)
    if mx(taylor_expm(lm), gm) > TOL or mx(el.to_gate().hs, gm) > TOL:
        V(ctx, "gates", "effective_lindbladian_typical.generate_effective_lindbladian_from_gate_name", "exp-lindbladian-vs-hs", "exp(L) differs from gate_mat of %r ids %s by %.3g (numerical)" % (n, ids, mx(taylor_expm(lm), gm)), case)
    if elphys and not el.is_physical():
        V(ctx, "gates", "effective_lindbladian_typical.generate_effective_lindbladian_from_gate_name", "unphysical", "EffectiveLindbladian of %r ids %s is not physical" % (n, ids), case)


def flow_c(vals):
    return [complex(float(vals[2 * i]), float(vals[2 * i + 1])) for i in range(len(vals) // 2)]


def legacy_gates(ctx, case):
    q = Q(); c1, c2 = csys("1qubit"), csys("2qubit")
    pairs = [("get_i", "identity"), ("get_x", "x"), ("get_y", "y"), ("get_z", "z"), ("get_h", "hadamard"), ("get_root_x", "x90"), ("get_root_y", "y90"),
             ("get_s", "phase"), ("get_sdg", "phase_daggered"), ("get_t", "piover8")]
    for fn, name in pairs:
        o = getattr(q.gate, fn)(c1); ref = q.gt.generate_gate_from_gate_name(name, c1)
        ctx.count("gates", key=("legacy", fn), label="legacy")
        if mx(o.hs, ref.hs) > TOL or not o.is_physical():
            V(ctx, "gates", "gate." + fn, "legacy-differs", "legacy %s differs from catalogue gate %r by %.3g" % (fn, name, mx(o.hs, ref.hs)), case)
    for fn, name, ids, args in (("get_cnot", "cx", [0, 1], (c2.elemental_systems[0],)), ("get_cnot", "cx", [1, 0], (c2.elemental_systems[1],)),
                                ("get_cz", "cz", [0, 1], ()), ("get_swap", "swap", [0, 1], ())):
        o = getattr(q.gate, fn)(c2, *args); ref = q.gt.generate_gate_from_gate_name(name, c2, ids)
        ctx.count("gates", key=("legacy", fn, tuple(ids)), label="legacy")
        if mx(o.hs, ref.hs) > TOL or not o.is_physical():
            V(ctx, "gates", "gate." + fn, "legacy-differs", "legacy %s (control %s) differs from catalogue gate %r ids %s by %.3g" % (fn, ids[0], name, ids, mx(o.hs, ref.hs)), case)


def chk_gate_any(ctx, case):
    if case.get("legacy"):
        return legacy_gates(ctx, case)
    return chk_gate(ctx, case)


def sub_gates(ctx):
    cases = gate_cases(ctx)
    if ctx.quick:
        # 3 qubits: the table / unitarity / unitary -> HS / exp(-iH) comparison for EVERY name and id order (light), all object forms for
        # four (name, id order) pairs, the d = 8 model runs for two of them and the Lindbladian's physicality verdict (2 s) for one;
        # Gate.is_physical() is not asked at d = 8 (6 s start-up inside quara); the thorough tier does everything for every case
        allforms = {("toffoli", (2, 0, 1)), ("fredkin", (1, 2, 0)), ("toffoli", (0, 1, 2)), ("fredkin", (0, 2, 1))}
        fullset = {("toffoli", (2, 0, 1)), ("fredkin", (1, 2, 0))}
        for cs in cases:
            if cs["sys"] == "3qubit":
                key = (cs["name"], tuple(cs["ids"]))
                cs.update({"light": key not in allforms, "full": key in fullset, "elphys": key == ("toffoli", (2, 0, 1)), "verdict": False, "el_required": False})
            else:
                cs["el_required"] = False
                if cs["sys"] == "2qubit" and cs.get("esys"):
                    cs["elphys"] = False        # the Lindbladian verdict (0.1 s) is asked on the default ids only
    cases.append({"legacy": True})
    ctx.sample("gates", cases[20]); ctx.run_cases("gates", FNS["gates"], cases)


# ================================================================== 4b. id bookkeeping of the multi-qubit gates (permute_pauli_symbol)
PAULI = "ixyz"


def chk_permute(ctx, case):
    """gate_typical.permute_pauli_symbol / get_permutation_matrix_from_ascending_order against Model/C17_Permute.v
    (permute_fixed, matP; theorem C17_permute_fixed_spec: letter k lands on the elemental system ids[k], for all lengths and ids)"""
    q = Q(); ids = list(case["ids"]); n = len(ids); syms = case["symbols"]; m = ctx.get_model()
    vs = [[PAULI.index(ch) for ch in sy] for sy in syms]
    flat = [x for v in vs for x in v]
    fixed = [int(x) for x in m.call("c17.permute", [1, n] + ids + flat)]
    mp_model = np.array([int(x) for x in m.call("c17.matp", [n] + ids)]).reshape(n, n)
    mp_impl = np.asarray(q.gt.get_permutation_matrix_from_ascending_order(ids))
    ctx.count("permute", key=("matP", tuple(ids)), nontrivial=ids != sorted(ids), label="n=%d" % n)
    if mp_impl.shape != (n, n) or not np.array_equal(mp_impl, mp_model):
        V(ctx, "permute", "gate_typical.get_permutation_matrix_from_ascending_order", "differs-from-model", "permutation matrix for ids %s is %s, model matP %s" % (ids, mp_impl.tolist(), mp_model.tolist()), case)
    coded = None
    for k, sy in enumerate(syms):
        ctx.count("permute", key=(tuple(ids), sy), nontrivial=ids != sorted(ids) and len(set(sy)) > 1, label="n=%d" % n)
        got = q.gt.permute_pauli_symbol(sy, ids)
        want = "".join(PAULI[i] for i in fixed[k * n:(k + 1) * n])
        if got == want:
            continue
        if coded is None:
            coded = [int(x) for x in m.call("c17.permute", [0, n] + ids + flat)]
        one = {"ids": ids, "symbols": [sy]}
        if got == "".join(PAULI[i] for i in coded[k * n:(k + 1) * n]):
            V(ctx, "permute", "gate_typical.permute_pauli_symbol", "ids-cyclic-permutation-inverted",
              "permute_pauli_symbol(%r, %s) = %r: letter k must land on the elemental system ids[k], i.e. %r in ascending order of ids; the result is the one for the INVERSE "
              "id permutation (matP applied instead of its transpose)" % (sy, ids, got, want), one)
        else:
            V(ctx, "permute", "gate_typical.permute_pauli_symbol", "differs-from-model", "permute_pauli_symbol(%r, %s) = %r, model permute_fixed gives %r" % (sy, ids, got, want), one)


def sub_permute(ctx):
    cases = []
    for n, idsets in ((1, ([0], [4])), (2, ([0, 1], [2, 9])), (3, ([0, 1, 2], [1, 5, 8])), (4, ([0, 1, 2, 3], [0, 3, 4, 7]))):
        allsyms = ["".join(t) for t in itertools.product(PAULI, repeat=n)]
        for base in idsets:
            for ids in itertools.permutations(base):
                syms = allsyms if n <= 3 else sorted(ctx.rng.sample(allsyms, ctx.n(12, 64)))
                cases.append({"ids": list(ids), "symbols": syms})
    ctx.sample("permute", {"ids": cases[10]["ids"], "symbols": cases[10]["symbols"][:4]}); ctx.run_cases("permute", FNS["permute"], cases)


# ================================================================== 5. textbook action triples
def decode_triples(vals):
    vals = [int(x) for x in vals]; pos = 0; out = []
    while pos < len(vals):
        t = []
        for _ in range(3):
            n = vals[pos]; t.append(vals[pos + 1:pos + 1 + n]); pos += 1 + n
        out.append(t)
    return out


def state_name_of(code):
    return CAT().state_inv[tuple(code)]


def gate_name_of(code):
    sysname = {1: "1qubit", 2: "2qubit", 3: "3qubit", 4: "1qutrit"}[code[0]]
    name = CAT().gate_inv[(sysname, code[1])]
    ids = [0] if code[0] in (1, 4) else ([1, 0] if code[2] else [0, 1]) if code[0] == 2 else list(code[2:])
    return sysname, name, ids


def triple_gate(sysname, gname, ids, verdict):
    """the Gate object of a triple (the same gate occurs in several triples: generated once per run)"""
    key = ("tgate", sysname, gname, tuple(ids), bool(verdict))
    if key not in _cache:
        _cache[key] = Q().qt.generate_qoperation("gate", gname, csys(sysname), ids=list(ids), is_physicality_required=bool(verdict))
    return _cache[key]


def chk_triple(ctx, case):
    q = Q(); g_code, a_code, b_code = case["gate"], case["in"], case["out"]
    sysname, gname, ids = gate_name_of(g_code); c = csys(sysname); d = c.dim
    a_name, b_name = state_name_of(a_code), state_name_of(b_code)
    ctx.count("triples", key=(tuple(g_code), tuple(a_code)), nontrivial=a_code != b_code, label=sysname)
    if "index" in case:
        if int(ctx.get_model().call("c17.triple_holds", [case["index"]])[0]) != 1:
            V(ctx, "triples", "Model/C17_Tables.triples_all", "table-triple", "table triple %d does not hold in the table algebra" % case["index"], case)
    g = triple_gate(sysname, gname, ids, case.get("verdict", True))
    sa = q.qt.generate_qoperation("state", a_name, c); sb = q.qt.generate_qoperation("state", b_name, c)
    out = q.compose(g, sa)
    mv = np.array([float(x) for x in ctx.get_model().call("c17.apply", [d * d], rflat(g.hs) + rflat(sa.vec))])
    site = "gate_typical.generate_gate_from_gate_name[%s]" % gname
    if mx(out.vec, mv) > TOL:
        V(ctx, "triples", "operators.compose_qoperations", "compose-vs-model", "compose(%s, %s) differs from model HS . vec by %.3g" % (gname, a_name, mx(out.vec, mv)), case)
    elif mx(out.vec, sb.vec) > TOL:
        what = "%s (ids %s) applied to %s gives a state differing from %s by %.3g (textbook triple, theorem C17_triples_hold)" % (gname, ids, a_name, b_name, mx(out.vec, sb.vec))
        inv = inverse_ids(ids) if sysname == "3qubit" else None
        if inv is not None and inv != list(ids) and mx(q.compose(triple_gate(sysname, gname, inv, case.get("verdict", True)), sa).vec, sb.vec) <= TOL:
            V(ctx, "triples", "gate_typical.permute_pauli_symbol", "ids-cyclic-permutation-inverted", what + "; the gate generated for the inverse id permutation %s does satisfy it" % inv, case)
        else:
            V(ctx, "triples", site, "textbook-action", what, case)


def sub_triples(ctx):
    ts = decode_triples(ctx.get_model().call("c17.triples"))
    cases = [{"index": i, "gate": t[0], "in": t[1], "out": t[2]} for i, t in enumerate(ts)]
    if ctx.quick:
        for cs in cases:
            if cs["gate"][0] == 3:          # 3-qubit gates: Gate objects built without quara's own physicality verdict (see sub_gates)
                cs["verdict"] = False
    ctx.sample("triples", cases[0]); ctx.run_cases("triples", FNS["triples"], cases)
    ctx.note("triples: %d (gate, input, output) triples, the list is read from the Coq table whose validity is theorem C17_triples_hold" % len(cases))


# ================================================================== 6. measurement processes
def mprocess_cases():
    mt = Q().mt
    names = mt.get_mprocess_names_type1() + mt.get_mprocess_names_type2()
    cases = []
    for n in names:
        cases.append({"sys": CAT().mproc.get(n, (None, None))[1], "name": n})
    # product names are accepted by the generators (split on "_"): a few on the 2-qubit / 2-qutrit systems
    for a, b in (("x-type1", "z-type2"), ("y-type2", "x-type1"), ("z-type1", "z-type1")):
        cases.append({"sys": "2qubit", "name": a + "_" + b})
    cases.append({"sys": "2qutrit", "name": "z2-type1_z3-type2"})
    return cases


def chk_mprocess(ctx, case):
    q = Q(); sysname, n = case["sys"], case["name"]
    site = "mprocess_typical.generate_mprocess_object_from_mprocess_name_object_name"
    ctx.count("mprocess", key=(sysname, n), nontrivial=True, label=str(sysname))
    if sysname is None:
        ctx.note("mprocess name %r has no known system; only generation without c_sys checked" % n); return
    c = csys(sysname); d = c.dim; basis = basis_of(c)
    parts = n.split("_")
    t1 = all(p in q.mt.get_mprocess_names_type1_set_pure_state_vectors() for p in parts)
    try:
        pv = q.qt.generate_mprocess_object(n, "set_pure_state_vectors") if t1 else None
        ks = q.qt.generate_mprocess_object(n, "set_kraus_matrices")
        hss = q.qt.generate_mprocess_object(n, "hss", c)
        verdict = case.get("verdict", True)       # False (quick tier, d = 9): MProcess built without quara's own physicality verdict, see sub_gates
        mp = q.qt.generate_mprocess_object(n, "mprocess", c, is_physicality_required=verdict)
        mp2 = q.qt.generate_qoperation("mprocess", n, c, is_physicality_required=verdict)
    except Exception as e:
        V(ctx, "mprocess", site, "listed-name-not-generable", "mprocess %r on %s: %s: %s" % (n, sysname, type(e).__name__, str(e)[:200]), case); return
    ks = [[np.asarray(k) for k in out] for out in ks]
    if len(parts) == 1 and n in CAT().mproc:
        t = tbl_mproc(ctx, CAT().mproc[n][0])
        bad = len(t) != len(ks) or any(len(a) != len(b) for a, b in zip(t, ks)) or max(mx(x, y) for a, b in zip(t, ks) for x, y in zip(a, b)) > TTOL
        if bad:
            V(ctx, "mprocess", "mprocess_typical.generate_mprocess_set_kraus_matrices_from_name", "differs-from-table", "Kraus set of %r differs from the textbook table" % n, case)
    if pv is not None:
        flat_ok = len(pv) == len(ks) and all(len(a) == len(b) for a, b in zip(pv, ks)) and \
            max(mx(np.outer(v, np.conj(v)), k) for a, b in zip(pv, ks) for v, k in zip(a, b)) <= TTOL
        if not flat_ok:
            V(ctx, "mprocess", site, "kraus-vs-vectors", "mprocess %r: Kraus matrices are not the projectors of set_pure_state_vectors" % n, case)
    if len(hss) != len(ks) or len(mp.hss) != len(ks):
        V(ctx, "mprocess", site, "count", "mprocess %r: %d Kraus outcomes, %d hss, %d MProcess.hss" % (n, len(ks), len(hss), len(mp.hss)), case); return
    for x, (kset, hs) in enumerate(zip(ks, hss)):
        hs = np.asarray(hs)
        hs_np = np_hs_from_kraus(basis, kset)
        bad = abs(hs_np.imag).max() > TOL or mx(hs_np.real, hs) > TOL or mx(mp.hss[x], hs) > TOL or mx(mp2.hss[x], hs) > TOL
        if not bad and d <= 4:
            r = [float(v) for v in ctx.get_model().call("c17.hs_kraus", [d, len(kset)], bflat(basis) + [v for k in kset for v in cflat(k)])]
            bad = r[-1] > TOL or mx(np.array(r[:-1]).reshape(d * d, d * d), hs) > TOL
        if bad:
            V(ctx, "mprocess", "mprocess_typical.generate_mprocess_hss_from_name", "kraus-vs-hs", "mprocess %r outcome %d: HS matrix is not that of its Kraus set (%.3g)" % (n, x, mx(hs_np.real, hs)), case); break
    tot = sum(np.asarray(h, dtype=float) for h in mp.hss)
    ver = bool(mp.is_physical()) if verdict else None
    ok = ver is not False and mx(tot[0], np.eye(d * d)[0]) <= TOL
    if ok:
        for h in mp.hss:
            ch = np_choi(basis, np.asarray(h, dtype=float))
            ok = ok and float(np.linalg.eigvalsh((ch + ch.conj().T) / 2).min()) >= -TOL and (d > 4 or psd_exact(ctx, ch))
    if not ok:
        V(ctx, "mprocess", "mprocess_typical.generate_mprocess_from_name", "unphysical", "mprocess %r on %s is not physical (verdict %s, TP row defect %.3g)" % (n, sysname, ver, mx(tot[0], np.eye(d * d)[0])), case)


def sub_mprocess(ctx):
    cases = mprocess_cases()
    if ctx.quick:
        for cs in cases:
            if cs["sys"] == "2qutrit":
                cs["verdict"] = False
    ctx.sample("mprocess", cases[3]); ctx.run_cases("mprocess", FNS["mprocess"], cases)


# ================================================================== 7. state ensembles
def chk_ensemble(ctx, case):
    q = Q(); n = case["name"]; c = csys("1qubit")
    if n not in q.et.get_state_ensemble_names():          # (a replay of a name that has since left the catalogue)
        ctx.count("ensembles", key=n, nontrivial=False, label="not-listed"); return
    ctx.count("ensembles", key=n, nontrivial=True, label="1qubit")
    try:
        e = q.qt.generate_qoperation_object("state_ensemble", n, "state_ensemble", c_sys=c)
        states, ps = q.et.generate_state_ensemble_elements_from_name(n, c)
    except Exception as ex:
        V(ctx, "ensembles", "state_ensemble_typical.generate_state_ensemble_elements_from_name", "listed-name-not-generable",
          "state ensemble %r is listed by get_state_ensemble_names() but cannot be generated: %s: %s" % (n, type(ex).__name__, str(ex)[:200]), case); return
    ps_o = np.asarray(e.prob_dist.ps, dtype=float)
    ok = len(e.states) == len(ps_o) == len(states) and abs(ps_o.sum() - 1) <= TOL and ps_o.min() >= -TOL and mx(ps_o, np.asarray(ps, dtype=float)) <= TOL
    for s in e.states:
        rho = sum(x * b for x, b in zip(np.asarray(s.vec, dtype=float), basis_of(c)))
        ok = ok and bool(s.is_physical()) and abs(np.trace(rho) - 1) <= TOL and psd_exact(ctx, rho)
    if not ok:
        V(ctx, "ensembles", "state_ensemble_typical.generate_state_ensemble_from_name", "unphysical", "state ensemble %r: states / distribution not physical or inconsistent (ps=%s)" % (n, list(ps_o)), case)


def sub_ensembles(ctx):
    cases = [{"name": n} for n in Q().et.get_state_ensemble_names()]
    ctx.sample("ensembles", cases[0]); ctx.run_cases("ensembles", FNS["ensembles"], cases)


# ================================================================== 8. unknown / mutated names must raise
def mutations(name, rng):
    out = {name + "x", "_" + name, name + "_", name.upper() if name.upper() != name else name + "0", " " + name, name[:-1], name[1:], ""}
    if len(name) > 1:
        i = rng.randrange(len(name)); out.add(name[:i] + name[i] + name[i:]); out.add(name[:i] + name[i + 1:])
        j = rng.randrange(len(name) - 1); out.add(name[:j] + name[j + 1] + name[j] + name[j + 2:])
    return sorted(out)


FOREIGN = ["x0", "z", "hadamard", "cx", "x-type1", "bell", "ghz", "identity", "xxparity", "zzparity", "01x90", "z3", "i01x90", "toffoli", "a", "x_x",
           # names that are in NO catalogue of any family (hyphenated / truncated spellings of names above)
           "xx-parity", "zzparity-", "-xxparity", "z-z-parity", "x-0", "bell-", "z-2", "x-type-1", "xtype1", "xxparity-type-1", "get_povm_xxparity"]


def product_names(rng, fq, ft, specials, n_each, wide=False):
    """names SHAPED like catalogue products, built from listed factors, that lie beyond the catalogued systems or are malformed:
    one / two factors more than the largest catalogued system of the kind (4, 5 qubit factors; 3, 4 qutrit factors), mixed qubit / qutrit
    factors, special (non-product) names with factors attached, repeated factors, empty factors, leading / trailing separators.
    fq / ft: listed one-qubit / one-qutrit factor names, specials: listed names that are not products of those.  -> [(name, kind)]"""
    out = []
    def pick(pool, k):
        return [rng.choice(pool) for _ in range(k)]
    def add(parts, kind):
        out.append(("_".join(parts), kind))
    for rnd in range(n_each + 1):
        det = rnd == 0                                   # first round deterministic: first factor repeated
        if fq:
            add([fq[0]] * 4 if det else pick(fq, 4), "4-qubit-factors"); add([fq[-1]] * 5 if det else pick(fq, 5), "5-qubit-factors")
            for cnt in ((6, 7, 8) if wide else ()):          # (thorough tier / broken translator tie: longer products)
                add([fq[0]] * cnt if det else pick(fq, cnt), "%d-qubit-factors" % cnt)
        if ft:
            add([ft[0]] * 3 if det else pick(ft, 3), "3-qutrit-factors"); add([ft[-1]] * 4 if det else pick(ft, 4), "4-qutrit-factors")
            for cnt in ((5, 6) if wide else ()):
                add([ft[0]] * cnt if det else pick(ft, cnt), "%d-qutrit-factors" % cnt)
        if fq and ft:
            for pat in ("qt", "tq", "qqt", "tqt", "qtt", "tqq"):
                add([(fq[0] if det else rng.choice(fq)) if ch == "q" else (ft[0] if det else rng.choice(ft)) for ch in pat], "mixed-qubit-qutrit")
        for sp in (specials[:2] if det else pick(specials, 2) if specials else []):
            f1 = (fq or ft)[0] if det else rng.choice(fq + ft)
            add([sp, f1], "special-with-factor"); add([f1, sp], "special-with-factor"); add([sp, sp], "special-with-factor")
        pool = fq + ft
        if pool:
            a, b = (pool[0], pool[-1]) if det else pick(pool, 2)
            for nm in (a + "__" + b, "_" + a, a + "_", "_" + a + "_" + b, a + "_" + b + "_", a + "___" + a, "_", "__", a + "_ _" + b):
                out.append((nm, "malformed-separator"))
    seen = set(); res = []
    for nm, kind in out:
        if nm not in seen:
            seen.add(nm); res.append((nm, kind))
    return res


MORPH = None


def morpheme_names(listed, extra_stems=()):
    """NEAR-MISS single names: the listed single names of a family are cut into (leading digits, letters, trailing digits, -typeN suffix) and the
    observed values of the four slots (plus 'absent') are recombined; everything that is not itself listed is a name that follows the
    catalogue's own spelling pattern (e.g. POVM '01z3', '02z3', 'x3'; gate '01x', 'hadamard90', 'ii90'; mprocess 'bell-type2') but is in no list"""
    import re
    rx = re.compile(r"^(\d*)([a-z_]+?)(\d*)(-type\d+)?$")
    slots = [set([""]), set(extra_stems), set([""]), set([""])]
    for n in listed:
        m = rx.match(n)
        if m:
            for k in range(4):
                slots[k].add(m.group(k + 1) or "")
    slots[1].discard("")
    out = sorted({a + b + c + d for a in slots[0] for b in slots[1] for c in slots[2] for d in slots[3]} - set(listed))
    return out


def product_factor_pools():
    """family -> (one-qubit factors, one-qutrit factors, special names) read from the catalogues"""
    q = Q()
    st1q = q.st.get_state_names_1qubit(); st1t = [n for n in q.st.get_state_names_1qutrit() if "_" not in n]
    stsp = [n for n in q.st.get_state_names() if "_" in n and not all(p in st1q or p in st1t for p in n.split("_"))] + ["ghz", "werner"]
    pv1q = q.pt.get_povm_names_1qubit(); pv1t = q.pt.get_povm_names_1qutrit(); pvsp = [n for n in q.pt.get_povm_names_2qubit() if "_" not in n]
    mp = q.mt.get_mprocess_names_type1() + q.mt.get_mprocess_names_type2()
    msys = lambda n: CAT().mproc.get(n, (None, None))[1]
    mp1q = [n for n in mp if msys(n) == "1qubit"]; mp1t = [n for n in mp if msys(n) == "1qutrit"]
    mpsp = [n for n in mp if msys(n) == "2qubit"]
    g1q = q.gt.get_gate_names_1qubit(); g1t = q.gt.get_gate_names_1qutrit()
    gsp = q.gt.get_gate_names_2qubit() + q.gt.get_gate_names_3qubit() + q.gt.get_gate_names_2qutrit_single_base_matrix()[:6] + ["identity"]
    en = q.et.get_state_ensemble_names()
    return {"state": (st1q, st1t, stsp), "povm": (pv1q, pv1t, pvsp), "mprocess": (mp1q, mp1t, mpsp), "gate": (g1q, g1t, gsp), "state_ensemble": (en, [], [])}


def families(quick=None):
    """family -> (seed names, validity predicate, probes: (form label, callable(name)))"""
    if quick is not None:
        _cache["families_quick"] = bool(quick)
    quick = _cache.get("families_quick", False)
    if "families" in _cache:
        return _cache["families"]
    q = Q()
    st_all = set(q.st.get_state_names())
    pv_single = set(q.pt.get_povm_names_1qubit() + [n for n in q.pt.get_povm_names_2qubit() if "_" not in n] + q.pt.get_povm_names_1qutrit())
    g_all = set(q.gt.get_gate_names()); mp_single = set(q.mt.get_mprocess_names_type1() + q.mt.get_mprocess_names_type2())
    en_all = set(q.et.get_state_ensemble_names())
    c1, c2, c3, t1 = csys("1qubit"), csys("2qubit"), csys("3qubit"), csys("1qutrit")
    allsys = [c1, c2, c3, t1]
    fam = {}
    def _validator(n):
        if q.st.is_valid_state_name(n):
            return True                      # "yields": the validator accepts a name that is in no list
        raise ValueError(n)
    allsys5 = allsys + [csys("2qutrit")]
    fam["state"] = (sorted(st_all, key=len)[:12] + ["bell_phi_plus", "z0_z1", "01x0_12y1"], lambda n: n in st_all,
                    [("is_valid_state_name", _validator),
                     ("pure_state_vector", lambda n: q.qt.generate_state_object(n, "pure_state_vector")), ("density_mat", lambda n: q.qt.generate_state_object(n, "density_mat")),
                     ("state_typical.pure_state_vector", lambda n: q.st.generate_state_pure_state_vector_from_name(n)),
                     ("state_typical.density_mat", lambda n: q.st.generate_state_density_mat_from_name(n)),
                     ("state_typical.object_from_name", lambda n: q.st.generate_state_object_from_state_name_object_name(n, "pure_state_vector"))] +
                    [("density_matrix_vector", lambda n, c=c: q.qt.generate_state_object(n, "density_matrix_vector", c)) for c in allsys5] +
                    [("state_typical.density_matrix_vector", lambda n, c=c: q.st.generate_state_density_matrix_vector_from_name(c.basis(), n)) for c in (c3, allsys5[-1])] +
                    [("state", lambda n, c=c: q.qt.generate_qoperation("state", n, c)) for c in allsys5] +
                    [("state_typical.state", lambda n, c=c: q.st.generate_state_from_name(c, n)) for c in (c1, c3, allsys5[-1])] +
                    [("generate_qoperation_object", lambda n, c=c: q.qt.generate_qoperation_object("state", n, "state", c_sys=c)) for c in (c2, allsys5[-1])] +
                    [("generate_qoperation_depolarized", lambda n, c=c: q.qt.generate_qoperation_depolarized("state", n, c, 0.1)) for c in (c1, t1)])
    fam["povm"] = (sorted(pv_single) + ["x_z", "z3_z2"], lambda n: all(p in pv_single for p in n.split("_")),
                   [("pure_state_vectors", lambda n: q.qt.generate_povm_object(n, "pure_state_vectors")), ("matrices", lambda n: q.qt.generate_povm_object(n, "matrices"))] +
                   [("vectors", lambda n, c=c: q.pt.generate_povm_object_from_povm_name_object_name(n, "vectors", basis=c.basis())) for c in allsys] +
                   [("povm", lambda n, c=c: q.qt.generate_qoperation("povm", n, c)) for c in allsys] +
                   [("generate_qoperation_object", lambda n, c=c: q.qt.generate_qoperation_object("povm", n, "povm", c_sys=c)) for c in (c2,)])
    # (every gate-name lookup in quara rebuilds the 39k-entry 2-qutrit list, ~13 ms: keep the number of probes moderate)
    gl = ["identity"] + q.gt.get_gate_names_1qubit() + q.gt.get_gate_names_2qubit() + q.gt.get_gate_names_3qubit() + q.gt.get_gate_names_1qutrit()[:4] + ["i01x90", "01x12y90_i02z180"]
    gprobes = []
    gforms = ((c1, [2], [0], ("unitary_mat", "gate_mat", "gate", "hamiltonian_vec", "hamiltonian_mat", "effective_lindbladian_mat", "effective_lindbladian")),
              (c2, [2, 2], [0, 1], ("unitary_mat", "gate", "effective_lindbladian")), (t1, [3], [0], ("gate",)))
    if quick:
        gforms = ((c1, [2], [0], ("unitary_mat", "gate", "hamiltonian_vec", "effective_lindbladian")), (c2, [2, 2], [0, 1], ("gate",)), (t1, [3], [0], ("gate",)))
    for c, dims, ids, forms in gforms:
        for form in forms:
            if form in ("unitary_mat", "gate_mat", "gate"):
                gprobes.append((form, lambda n, c=c, dims=dims, ids=ids, form=form: q.qt.generate_gate_object(n, form, dims=dims, ids=ids, c_sys=c)))
            else:
                gprobes.append((form, lambda n, c=c, dims=dims, ids=ids, form=form: q.qt.generate_effective_lindbladian_object(n, form, dims=dims, ids=ids, c_sys=c)))
    fam["gate"] = (gl, lambda n: n in g_all, gprobes)
    fam["mprocess"] = (sorted(mp_single), lambda n: all(p in mp_single for p in n.split("_")),
                       [("set_pure_state_vectors", lambda n: q.qt.generate_mprocess_object(n, "set_pure_state_vectors")), ("set_kraus_matrices", lambda n: q.qt.generate_mprocess_object(n, "set_kraus_matrices"))] +
                       [("hss", lambda n, c=c: q.qt.generate_mprocess_object(n, "hss", c)) for c in allsys] +
                       [("mprocess", lambda n, c=c: q.qt.generate_qoperation("mprocess", n, c)) for c in allsys])
    fam["state_ensemble"] = (sorted(en_all), lambda n: n in en_all,
                             [("state_ensemble", lambda n, c=c: q.qt.generate_qoperation_object("state_ensemble", n, "state_ensemble", c_sys=c)) for c in (c1, c2)] +
                             [("elements", lambda n: q.et.generate_state_ensemble_elements_from_name(n, c1)), ("from_name", lambda n: q.et.generate_state_ensemble_from_name(c1, n))])
    _cache["families"] = fam
    return fam


SITES = {"state": "state_typical.generate_state_object_from_state_name_object_name", "povm": "povm_typical.generate_povm_object_from_povm_name_object_name",
         "gate": "gate_typical.generate_gate_object_from_gate_name_object_name", "mprocess": "mprocess_typical.generate_mprocess_object_from_mprocess_name_object_name",
         "state_ensemble": "state_ensemble_typical.generate_state_ensemble_object_from_state_ensemble_name_object_name"}


def chk_unknown(ctx, case):
    fam = families(case.get("quick"))[case["family"]]; name = case["name"]
    _, valid, probes = fam
    if valid(name):
        if case.get("product") and case["family"] in ("povm", "mprocess") and name not in _listed(case["family"]):
            return chk_offlist_product(ctx, case)
        ctx.count("unknown_names", key=(case["family"], name), nontrivial=False, label="skipped-valid"); return
    yields = []
    for k, (form, f) in enumerate(probes):
        ctx.count("unknown_names", key=(case["family"], name, form, k), nontrivial=True, label=case["family"] + ("-product" if case.get("product") else ""))
        try:
            obj = f(name)
        except EXC:
            continue
        except Exception:
            continue
        yields.append("%s -> %s%s" % (form, type(obj).__name__, (" of shape %s" % (np.shape(obj),)) if isinstance(obj, np.ndarray) else ""))
    if yields:
        sig = "unlisted-name-accepted" if case.get("foreign") else "offcatalogue-product-accepted:" + case["product"] if case.get("product") else \
            "nearmiss-name-accepted" if case.get("nearmiss") else "unknown-name-yields-object"
        site = "state_typical.is_valid_state_name" if yields[0].startswith("is_valid_state_name") else SITES[case["family"]]
        V(ctx, "unknown_names", site, sig,
          "%s name %r is in no catalogue list but %d of %d object forms / dispatchers yield an object instead of raising: %s" % (case["family"], name, len(yields), len(probes), "; ".join(yields[:6])), case)


def _listed(family):
    q = Q()
    if ("listed", family) not in _cache:
        _cache[("listed", family)] = {"state": lambda: set(q.st.get_state_names()), "povm": lambda: set(q.pt.get_povm_names()),
                                      "mprocess": lambda: set(q.mt.get_mprocess_names_type1() + q.mt.get_mprocess_names_type2()),
                                      "gate": lambda: set(q.gt.get_gate_names()), "state_ensemble": lambda: set(q.et.get_state_ensemble_names())}[family]()
    return _cache[("listed", family)]


def chk_offlist_product(ctx, case):
    """POVM / measurement-process names are COMPOSITIONAL in quara: the generators split at '_' and accept every product of listed single
    names (upstream uses e.g. 'x-type1_z-type1', which is in no list).  For a well-formed product that is in no get_*_names* list the check
    therefore demands: whatever is yielded is exactly the Kronecker product (itertools.product order) of the factor TABLES - never 'some object' -
    and every form that is bound to a composite system raises when the dimensions do not match (and denotes the same operators when they do)."""
    q = Q(); fam = case["family"]; name = case["name"]; parts = name.split("_"); m = ctx.get_model()
    site = SITES[fam]; sig = "offcatalogue-product-differs:" + case["product"]
    ctx.count("unknown_names", key=(fam, name, "product"), nontrivial=True, label=fam + "-offlist-product")
    if fam == "povm":
        tabs = [tbl_povm(ctx, [CAT().povm_single[p]]) for p in parts]
        want = tabs[0]
        for t in tabs[1:]:
            want = [np.kron(a, b) for a, b in itertools.product(want, t)]
        try:
            got = [np.asarray(x) for x in q.qt.generate_povm_object(name, "matrices")]
        except EXC:
            got = None
        d = want[0].shape[0]
        if got is not None and (len(got) != len(want) or max(mx(a, b) for a, b in zip(got, want)) > TTOL):
            V(ctx, "unknown_names", site, sig, "POVM name %r (product of listed factors, in no list) yields matrices that are not the product of the factor tables" % name, case)
        if all(p in q.pt.get_povm_names_rank1() for p in parts):
            try:
                pv = q.qt.generate_povm_object(name, "pure_state_vectors")
                if len(pv) != len(want) or max(mx(np.outer(v, np.conj(v)), w) for v, w in zip(pv, want)) > TTOL:
                    V(ctx, "unknown_names", site, sig, "POVM name %r: pure_state_vectors are not the product of the factor tables" % name, case)
            except EXC:
                pass
        for sysname in ("1qubit", "2qubit", "3qubit", "1qutrit", "2qutrit"):
            c = csys(sysname)
            try:
                vs = q.pt.generate_povm_object_from_povm_name_object_name(name, "vectors", basis=c.basis())
            except Exception:
                continue
            if c.dim != d or max(mx(np_vec(basis_of(c), w), v) for w, v in zip(want, vs)) > TOL:
                V(ctx, "unknown_names", site, "offcatalogue-product-wrong-system:" + case["product"],
                  "POVM name %r (dimension %d) yields vectors on the %s system (dimension %d)%s" % (name, d, sysname, c.dim, "" if c.dim != d else " that do not denote the product"), case)
    else:
        tabs = []
        for p in parts:
            t = tbl_mproc(ctx, CAT().mproc[p][0]); tabs.append([np.array(out) for out in t])
        want = tabs[0]
        for t in tabs[1:]:
            want = [np.kron(a, b) for a, b in itertools.product(want, t)]
        d = want[0].shape[-1]
        try:
            got = [np.asarray(x) for x in q.qt.generate_mprocess_object(name, "set_kraus_matrices")]
        except EXC:
            got = None
        if got is not None and (len(got) != len(want) or any(a.shape != b.shape for a, b in zip(got, want)) or max(mx(a, b) for a, b in zip(got, want)) > TTOL):
            V(ctx, "unknown_names", site, sig, "mprocess name %r (product of listed factors, in no list) yields Kraus sets that are not the product of the factor tables" % name, case)
        for sysname in ("1qubit", "2qubit", "3qubit", "1qutrit", "2qutrit") if d <= 16 else ():   # (quara builds the d^2 x d^2 HS matrices of every outcome first)
            c = csys(sysname)
            if c.dim == d and d > 4:
                continue                                  # (matching 8- / 9-dimensional products are listed-system cases of the mprocess sub-check)
            try:
                hss = q.qt.generate_mprocess_object(name, "hss", c)
            except Exception:
                continue
            bad = c.dim != d or len(hss) != len(want)
            if not bad:
                bad = max(mx(np_hs_from_kraus(basis_of(c), list(w)).real, np.asarray(h)) for w, h in zip(want, hss)) > TOL
            if bad:
                V(ctx, "unknown_names", site, "offcatalogue-product-wrong-system:" + case["product"],
                  "mprocess name %r (dimension %d) yields HS matrices on the %s system (dimension %d)%s" % (name, d, sysname, c.dim, "" if c.dim != d else " that do not denote the product"), case)


def chk_object_name(ctx, case):
    q = Q(); c1 = csys("1qubit"); bad = case["object_name"]
    calls = {"state": lambda: q.qt.generate_state_object("z0", bad, c1), "povm": lambda: q.qt.generate_povm_object("z", bad, c1),
             "gate": lambda: q.qt.generate_gate_object("x", bad, dims=[2], ids=[0], c_sys=c1), "mprocess": lambda: q.qt.generate_mprocess_object("z-type1", bad, c1),
             "effective_lindbladian": lambda: q.qt.generate_effective_lindbladian_object("x", bad, dims=[2], ids=[0], c_sys=c1),
             "state_ensemble": lambda: q.et.generate_state_ensemble_object_from_state_ensemble_name_object_name("z0", bad, c1),
             "mode": lambda: q.qt.generate_qoperation_object(bad, "z0", "state", c_sys=c1)}
    ctx.count("unknown_names", key=("object_name", case["family"], bad), nontrivial=True, label="object_name")
    try:
        obj = calls[case["family"]]()
    except ValueError:
        return
    except Exception as e:
        V(ctx, "unknown_names", "qoperation_typical.generate_%s_object" % case["family"], "error-kind", "unknown object_name %r raises %s, not ValueError" % (bad, type(e).__name__), case); return
    V(ctx, "unknown_names", "qoperation_typical.generate_%s_object" % case["family"], "unknown-object-name-yields-object", "unknown object_name %r yields %s" % (bad, type(obj).__name__), case)


def chk_validator(ctx, case):
    """state_typical.is_valid_state_name is the gate keeper of every state generator: it must be True exactly on get_state_names()"""
    q = Q(); listed = q.st.get_state_names()
    for n in listed:
        ctx.count("unknown_names", key=("validator", n), nontrivial=True, label="validator-listed")
        if not q.st.is_valid_state_name(n):
            V(ctx, "unknown_names", "state_typical.is_valid_state_name", "listed-name-rejected", "is_valid_state_name(%r) is False for a listed name" % n, {"family": "state", "name": n, "validator": True})


def chk_auxlists(ctx, case):
    """the generators use AUXILIARY lists as validity tests (get_povm_names_rank1, get_mprocess_names_type1_set_pure_state_vectors,
    get_gate_names_2qubit_asymmetric, ...): every zero-argument get_<family>_names* function of a catalogue module must return names of that
    family's catalogue - a name that is only in an auxiliary list is accepted by a generator although no catalogue lists it"""
    import inspect
    q = Q()
    mods = {"state": (q.st, "get_state_names"), "povm": (q.pt, "get_povm_names"), "gate": (q.gt, "get_gate_names"), "mprocess": (q.mt, "get_mprocess_names"),
            "state_ensemble": (q.et, "get_state_ensemble_names")}
    for fam, (mod, prefix) in mods.items():
        main = set(_listed(fam)) | ({"identity"} if fam == "gate" else set())
        factors = {p for n in main for p in n.split("_")} if fam in ("povm", "mprocess") else set()
        for fname, fn in sorted(vars(mod).items()):
            if not (fname.startswith(prefix) and callable(fn)) or getattr(fn, "__module__", None) != mod.__name__:
                continue
            try:
                if any(p.default is inspect.Parameter.empty for p in inspect.signature(fn).parameters.values()):
                    continue
                names = fn()
            except Exception as e:
                V(ctx, "unknown_names", "%s.%s" % (mod.__name__.split(".")[-1], fname), "catalogue-function-raises", "%s() raises %s" % (fname, type(e).__name__), case); continue
            ctx.count("unknown_names", key=("auxlist", fam, fname), nontrivial=True, label="auxlists")
            if not isinstance(names, (list, tuple)) or not all(isinstance(n, str) for n in names):
                continue
            stray = [n for n in names if n not in main and n not in factors]
            if stray:
                V(ctx, "unknown_names", "%s.%s" % (mod.__name__.split(".")[-1], fname), "auxiliary-list-name-not-in-catalogue",
                  "%s() contains %s, which no catalogue list of the %s family contains" % (fname, stray[:5], fam), case)


def chk_unknown_any(ctx, case):
    if case.get("validator"):
        return chk_validator(ctx, case)
    if case.get("auxlists"):
        return chk_auxlists(ctx, case)
    return chk_object_name(ctx, case) if "object_name" in case else chk_unknown(ctx, case)


def sub_unknown(ctx):
    fam = families(ctx.quick); cases = []
    for f, (seeds, valid, probes) in fam.items():
        names = set()
        for s in seeds:
            names.update(mutations(s, ctx.rng))
        names = sorted(n for n in names if not valid(n))
        cap = 20 if f == "gate" else 60          # every gate-name lookup in quara rebuilds the 39k-entry 2-qutrit list (13 ms)
        if ctx.quick and len(names) > cap:
            names = sorted(ctx.rng.sample(names, cap))
        cases += [{"family": f, "name": n, "quick": ctx.quick} for n in names]
        cases += [{"family": f, "name": n, "foreign": True, "quick": ctx.quick} for n in FOREIGN]
    # well-formed / malformed PRODUCT names beyond the catalogued systems, for every family
    pools = product_factor_pools(); nprod = {}
    for f, (fq, ft, sp) in pools.items():
        wide = (not ctx.quick or getattr(ctx, "boost", False)) and f in ("state", "state_ensemble")
        pn = product_names(ctx.rng, fq, ft, sp, {"gate": ctx.n(0, 2), "state": ctx.n(3, 12)}.get(f, ctx.n(1, 6)), wide=wide)
        pn = [(n, k) for n, k in pn if n not in _listed(f)]
        nprod[f] = len(pn)
        cases += [{"family": f, "name": n, "product": k, "quick": ctx.quick} for n, k in pn]
    # near-miss single names recombined from the catalogue's own spelling pattern, alone and as a factor next to a listed factor
    nmiss = {}
    singles = {f: [n for n in _listed(f) if "_" not in n or f == "gate"] for f in fam}
    q = Q()
    singles["gate"] = q.gt.get_gate_names_1qubit() + q.gt.get_gate_names_2qubit() + q.gt.get_gate_names_3qubit() + q.gt.get_gate_names_1qutrit() + \
        q.gt.get_gate_names_2qutrit_single_base_matrix()
    extra = {"mprocess": [n for n in _listed("povm") if "_" not in n], "state_ensemble": q.st.get_state_names_1qubit()}
    for f in fam:
        cand = [n for n in morpheme_names(singles[f], extra.get(f, ())) if n not in _listed(f) and not fam[f][1](n)]
        cap = {"gate": ctx.n(12, 400), "state": ctx.n(45, 10 ** 6)}.get(f, ctx.n(60, 10 ** 6))
        if len(cand) > cap:
            cand = sorted(ctx.rng.sample(cand, cap))
        nmiss[f] = len(cand)
        cases += [{"family": f, "name": n, "nearmiss": True, "quick": ctx.quick} for n in cand]
        pools_f = [x for x in pools[f][0] + pools[f][1]]
        if f in ("povm", "mprocess", "state") and pools_f:
            for n in (cand if len(cand) <= 30 else ctx.rng.sample(cand, 30)):
                other = ctx.rng.choice(pools_f)
                for nm in (n + "_" + other, other + "_" + n):
                    if nm not in _listed(f) and not fam[f][1](nm):
                        cases.append({"family": f, "name": nm, "nearmiss": True, "quick": ctx.quick})
    ctx.note("unknown_names: near-miss single names recombined from the spelling slots of the listed names (must raise in every form): %s" % nmiss)
    cases.append({"validator": True})
    cases.append({"auxlists": True})
    for f in ("state", "povm", "gate", "mprocess", "effective_lindbladian", "state_ensemble", "mode"):
        for bad in ("", "stat", "State", "gate_", "unitary", "object"):
            cases.append({"family": f, "object_name": bad})
    ctx.sample("unknown_names", cases[3]); ctx.run_cases("unknown_names", FNS["unknown_names"], cases)
    ctx.note("unknown_names: product-shaped names beyond the catalogued systems (4 / 5 qubit factors, 3 / 4 qutrit factors, mixed qubit-qutrit, special names with factors, "
             "empty factors, leading / trailing separators) per family: %s; closed families (state, gate, state_ensemble): must raise in every object form and dispatcher; "
             "compositional families (povm, mprocess): malformed must raise, well-formed must equal the product of the factor tables and raise on a system of another dimension" % nprod)


# ================================================================== 9. 2-qutrit gates (about 39k names): pool of workers
_W = {}


def _w_init(tbl_single, verdict=True):
    warnings.simplefilter("ignore")
    _W["tbl"] = tbl_single; _W["verdict"] = bool(verdict)
    _W["c"] = csys("2qutrit"); _W["basis"] = basis_of(_W["c"])


def ham_of(terms, tbl):
    """(pi/4) x sum of the Coq tables of the name's terms (the terms come from the Coq catalogue, Model/C17_Names.v)"""
    return sum(tbl[t][0] for t in terms) * (math.pi / 4)


def _w_check(arg):
    """numerical self-consistency of one 2-qutrit gate name; returns list of (site, signature, what).
    level 0: unitary_mat and hamiltonian_mat (table, unitarity, exp(-iH) = U); level 1: + Gate object (HS matrix of U, TP, verdict);
    level 2: + gate_mat, hamiltonian_vec, effective_lindbladian_mat, EffectiveLindbladian (all seven object forms).
    Every object form of a 2-qutrit name is computed by quara from the name's Hamiltonian through helpers shared by all names."""
    name, level, terms = arg
    level = 2 if level is True else int(level); heavy = level >= 2
    q = Q(); c = _W["c"]; basis = _W["basis"]; tbl = _W["tbl"]; out = []; verdict = _W.get("verdict", True)
    dims, ids = [3, 3], [0, 1]
    try:
        u = np.asarray(q.gt.generate_unitary_mat_from_gate_name(name, dims, ids))
        hm = np.asarray(q.lt.generate_hamiltonian_mat_from_gate_name(name, dims, ids))
        if level >= 1:
            g = q.gt.generate_gate_from_gate_name(name, c, ids, is_physicality_required=verdict)
        if heavy:
            gm = np.asarray(q.gt.generate_gate_mat_from_gate_name(name, dims, ids))
            hv = np.asarray(q.lt.generate_hamiltonian_vec_from_gate_name(name, dims, ids))
            lm = np.asarray(q.lt.generate_effective_lindbladian_mat_from_gate_name(name, dims, ids))
            el = q.lt.generate_effective_lindbladian_from_gate_name(name, c, ids, is_physicality_required=False)
    except Exception as e:
        return [("gate_typical.generate_gate_object_from_gate_name_object_name", "listed-name-not-generable", "2-qutrit gate %r: %s: %s" % (name, type(e).__name__, str(e)[:200]), name)]
    if terms is not None and all(tuple(t) in tbl for t in terms):
        terms = [tuple(t) for t in terms]
        if mx(hm, ham_of(terms, tbl)) > TTOL * 10:
            out.append(("effective_lindbladian_typical.generate_hamiltonian_mat_from_gate_name", "differs-from-table", "Hamiltonian of %r differs from (pi/4) x table by %.3g" % (name, mx(hm, ham_of(terms, tbl)))))
        if len(terms) == 1 and mx(u, tbl[terms[0]][1]) > TOL:
            out.append(("gate_typical.generate_unitary_mat_from_gate_name", "differs-from-table", "unitary of %r differs from the rotation-formula table by %.3g" % (name, mx(u, tbl[terms[0]][1]))))
    else:
        out.append(("gate_typical.get_gate_names_2qutrit", "name-not-in-table", "2-qutrit name %r has no table Hamiltonian" % name))
    if mx(u.conj().T @ u, np.eye(9)) > TOL:
        out.append(("gate_typical.generate_unitary_mat_from_gate_name", "not-unitary", "unitary of %r: |U^dagger U - I| = %.3g" % (name, mx(u.conj().T @ u, np.eye(9)))))
    if mx(taylor_expm(-1j * hm), u) > TOL:
        out.append(("effective_lindbladian_typical.generate_hamiltonian_mat_from_gate_name", "exp-hamiltonian-vs-unitary", "exp(-iH) differs from unitary_mat of %r by %.3g (numerical)" % (name, mx(taylor_expm(-1j * hm), u))))
    if level < 1:
        return [(a, b, c_, name) for a, b, c_ in out]
    hs_np = np_hs_from_kraus(basis, [u])
    if abs(hs_np.imag).max() > TOL or mx(hs_np.real, g.hs) > TOL:
        out.append(("gate_typical.generate_gate_from_gate_name", "unitary-vs-hs", "Gate %r is not the HS matrix of its unitary_mat (%.3g)" % (name, mx(hs_np.real, g.hs))))
    if (verdict and not g.is_physical()) or mx(g.hs[0], np.eye(81)[0]) > TOL:      # CP: HS = hs_of_kraus [U] above, U unitary
        out.append(("gate_typical.generate_gate_from_gate_name", "unphysical", "2-qutrit gate %r is not physical" % name))
    if heavy:
        if mx(gm, g.hs) > TOL:
            out.append(("gate_typical.generate_gate_mat_from_gate_name", "gate-vs-hs", "gate_mat of %r differs from the Gate object" % name))
        if mx(sum(x * b for x, b in zip(hv, basis)), hm) > TOL:
            out.append(("effective_lindbladian_typical.generate_hamiltonian_vec_from_gate_name", "hvec-vs-hmat", "hamiltonian_vec of %r does not denote hamiltonian_mat" % name))
        L = np_lind(basis, hm)
        if abs(L.imag).max() > TOL or mx(L.real, lm) > TOL or mx(el.hs, lm) > TOL:
            out.append(("effective_lindbladian_typical.generate_effective_lindbladian_mat_from_gate_name", "lindbladian-vs-hamiltonian", "effective_lindbladian_mat of %r is not -i[H,.]" % name))
        if mx(taylor_expm(lm), g.hs) > TOL or mx(el.to_gate().hs, g.hs) > TOL:
            out.append(("effective_lindbladian_typical.generate_effective_lindbladian_from_gate_name", "exp-lindbladian-vs-hs", "exp(L) differs from the gate of %r (numerical)" % name))
    return [(a, b, c_, name) for a, b, c_ in out]


def _w_ham_batch(named_terms):
    """level -1: the name-specific step of every 2-qutrit object form - name -> Hamiltonian
    (gate_typical.calc_hamiltonian_mat_from_gate_name_2qutrit_base_matrices, no catalogue look-up) - against (pi/4) x the Coq table
    of the terms the Coq catalogue stores under that name"""
    q = Q(); tbl = _W["tbl"]; out = []
    f = q.gt.calc_hamiltonian_mat_from_gate_name_2qutrit_base_matrices
    for name, terms in named_terms:
        try:
            hm = np.asarray(f(name))
        except Exception as e:
            out.append(("gate_typical.calc_hamiltonian_mat_from_gate_name_2qutrit_base_matrices", "listed-name-not-generable", "2-qutrit gate %r: %s: %s" % (name, type(e).__name__, str(e)[:200]), name)); continue
        if terms is None or not all(tuple(t) in tbl for t in terms):
            out.append(("gate_typical.get_gate_names_2qutrit", "name-not-in-table", "2-qutrit name %r has no table Hamiltonian" % name, name)); continue
        terms = [tuple(t) for t in terms]
        if hm.shape != (9, 9) or mx(hm, ham_of(terms, tbl)) > TTOL * 10:
            out.append(("effective_lindbladian_typical.generate_hamiltonian_mat_from_gate_name", "differs-from-table", "Hamiltonian of %r differs from (pi/4) x table by %.3g" % (name, mx(hm, ham_of(terms, tbl))), name))
    return out


def single_tables(ctx):
    """table Hamiltonian / (pi/4) and rotation-formula unitary of the 198 single-base-matrix names, from the Coq tables"""
    tbl = {}
    for n, t in CAT().g2t_single.items():
        K = np.array(ev(ctx.get_model().call("c17.ham2t", list(t)))).reshape(9, 9)
        tbl[tuple(t)] = (K, tbl_gate(ctx, [5] + list(t)))
    return tbl


def terms_2qutrit(names):
    """name -> terms of the Coq catalogue (None when the Coq catalogue has no such name at quara's position)"""
    cat = CAT(); out = {}
    dbl = _cache.get("quara_doubles_index")
    if dbl is None:
        dbl = {n: i for i, n in enumerate(Q().gt.get_gate_names_2qutrit_two_base_matrices())}; _cache["quara_doubles_index"] = dbl
    want = []
    for n in names:
        if n in cat.g2t_single:
            out[n] = [cat.g2t_single[n]]
        elif n in dbl:
            want.append((dbl[n], n))
        else:
            out[n] = None
    if len(want) > 20000:
        got = cat.doubles(0, cat.n_double)
        byname = dict(got)
        for i, n in want:
            out[n] = byname.get(n)
    else:
        for k in range(0, len(want), 2000):
            chunk = want[k:k + 2000]
            got = cat.doubles(indices=[i for i, _ in chunk])
            bypos = {}
            for (i, n), (cn, terms) in zip([c for c in chunk if c[0] < cat.n_double], got):
                bypos[n] = terms if cn == n else None
            for i, n in chunk:
                out[n] = bypos.get(n)
    return out


def chk_2qutrit(ctx, case):
    """one name, in-process (replay and model-tied sample): numerical checks + model HS / Hamiltonian table"""
    name = case["name"]
    tbl = _cache.get("tbl2t") or single_tables(ctx); _cache["tbl2t"] = tbl
    if "c" not in _W:
        _w_init(tbl, case.get("verdict", True))
    _W["verdict"] = bool(case.get("verdict", True))
    terms = terms_2qutrit([name])[name]
    for site, sig, what, _ in _w_ham_batch([(name, terms)]) + _w_check((name, 2, terms)):
        V(ctx, "gates_2qutrit", site, sig, what, case)
    ctx.count("gates_2qutrit", key=name, nontrivial=True, label="model-tied")
    if case.get("model"):
        q = Q(); c = _W["c"]; basis = _W["basis"]
        if terms is not None:
            K = np.array(ev(ctx.get_model().call("c17.ham2t", [x for t in terms for x in t]))).reshape(9, 9)
            hm = np.asarray(q.lt.generate_hamiltonian_mat_from_gate_name(name, [3, 3], [0, 1]))
            if mx(hm, K * (math.pi / 4)) > TTOL * 10:
                V(ctx, "gates_2qutrit", "effective_lindbladian_typical.generate_hamiltonian_mat_from_gate_name", "differs-from-table", "Hamiltonian of %r differs from the Coq table ham2t by %.3g" % (name, mx(hm, K * (math.pi / 4))), case)
        u = np.asarray(q.gt.generate_unitary_mat_from_gate_name(name, [3, 3], [0, 1]))
        g = q.gt.generate_gate_from_gate_name(name, c, [0, 1], is_physicality_required=_W["verdict"])
        r = [float(x) for x in ctx.get_model().call("c17.hs_kraus", [9, 1], bflat(basis) + cflat(u))]
        if r[-1] > TOL or mx(np.array(r[:-1]).reshape(81, 81), g.hs) > TOL:
            V(ctx, "gates_2qutrit", "gate_typical.generate_gate_from_gate_name", "unitary-vs-hs", "Gate %r differs from model hs_of_kraus [U] by %.3g" % (name, mx(np.array(r[:-1]).reshape(81, 81), g.hs)), case)


def sub_2qutrit(ctx):
    import multiprocessing as mp
    gt = Q().gt
    singles = gt.get_gate_names_2qutrit_single_base_matrix(); doubles = gt.get_gate_names_2qutrit_two_base_matrices()
    allnames = gt.get_gate_names_2qutrit()
    if set(allnames) != set(singles) | set(doubles):
        V(ctx, "gates_2qutrit", "gate_typical.get_gate_names_2qutrit", "catalogue-lists-disagree", "get_gate_names_2qutrit is not the union of its two sub-lists", {"n": len(allnames)})
    import time
    t0 = time.time()
    tbl = single_tables(ctx); _cache["tbl2t"] = tbl
    t1 = time.time()
    verdict = not ctx.quick
    # Every object form of a 2-qutrit name is computed from the name's Hamiltonian by helpers shared by all names, and every dispatcher
    # call costs 25 ms per catalogue look-up inside quara (0.1 - 0.6 s per name).  Hence two layers:
    #   hnames  name -> Hamiltonian against the Coq table (0.2 ms per name): ALL 39k names in the thorough tier, a seeded 3000 in the quick tier
    #   names   the dispatchers (level 0 unitary_mat + hamiltonian_mat, 1 + Gate object, 2 all seven object forms):
    #           quick: 12 + 24 sampled names at level 1, every 16th at level 2;
    #           thorough: all 198 single-base-matrix names at level 1 and every 16th two-base-matrix name (every 64th level 1, every 256th level 2)
    if ctx.quick:
        names = ctx.rng.sample(singles, min(len(singles), 12)) + ctx.rng.sample(doubles, min(len(doubles), 24))
        level = {n: (2 if i % 16 == 0 else 1) for i, n in enumerate(names)}
        hnames = sorted(set(singles) | set(ctx.rng.sample(doubles, min(len(doubles), 3000))))
    else:
        names = list(singles) + list(doubles[::16])
        level = {n: 1 for n in singles}
        level.update({n: (2 if i % 16 == 0 else 1 if i % 4 == 0 else 0) for i, n in enumerate(doubles[::16])})
        hnames = list(allnames)
        # quara tabulates B_a (x) conj(B_b) on the first physicality verdict of a composite system (7 s at d = 9):
        # do it once here, the forked workers inherit the cache
        Q().gt.generate_gate_from_gate_name(singles[0], csys("2qutrit"), [0, 1]).is_physical()
    if getattr(ctx, "boost", False):
        hnames = list(allnames)            # the translator tie is broken: look for a concrete failing name among ALL names
    nproc = max(1, min(8 if ctx.quick else 16, os.cpu_count() or 1, len(names)))
    fails = []
    tmap = terms_2qutrit(list(hnames) + list(names))
    hpairs = [(n, tmap.get(n)) for n in hnames]
    with mp.get_context("fork").Pool(nproc, initializer=_w_init, initargs=(tbl, verdict)) as pool:
        for res in pool.imap_unordered(_w_ham_batch, [hpairs[i:i + 500] for i in range(0, len(hpairs), 500)]):
            fails += res
        for res in pool.imap_unordered(_w_check, [(n, level[n], tmap.get(n)) for n in names], chunksize=2 if ctx.quick else 8):
            fails += res
    t2 = time.time()
    for n in hnames:
        ctx.count("gates_2qutrit", key=(n, "hamiltonian"), nontrivial=True, label=("single" if "_" not in n else "double") + "-hamiltonian")
    for n in names:
        ctx.count("gates_2qutrit", key=n, nontrivial=True, label=("single" if "_" not in n else "double") + "-level%d" % level[n])
    for site, sig, what, name in sorted(fails, key=lambda t: (t[0], t[1], t[3])):
        V(ctx, "gates_2qutrit", site, sig, what, {"name": name, "verdict": verdict})
    # model-tied sample in the main process (hs_of_kraus at d = 9 costs seconds)
    tied = ctx.rng.sample(singles, ctx.n(0, 2)) + ctx.rng.sample(doubles, ctx.n(1, 12))
    ctx.sample("gates_2qutrit", {"name": tied[-1], "model": True})
    ctx.run_cases("gates_2qutrit", FNS["gates_2qutrit"], [{"name": n, "model": True, "verdict": verdict} for n in tied])
    ctx.note("2-qutrit gates: Hamiltonian of %d of %d names against the Coq table (all of them in the thorough tier); %d names through quara's dispatchers on %d worker processes, "
             "levels (0 unitary + Hamiltonian, 1 + Gate object, 2 all seven object forms): %s; %d tied to the Coq model (ham2t table, hs_of_kraus); Gate.is_physical() verdicts %s" % (
        len(hnames), len(allnames), len(names), nproc, {k: sum(1 for v in level.values() if v == k) for k in (0, 1, 2)}, len(tied), "asked" if verdict else "not asked in the quick tier (CP/TP certified through HS = hs_of_kraus [U], U unitary, TP row)"))
    ctx.note("2-qutrit gates wall (s): tables %.1f, worker pool %.1f, model-tied sample %.1f" % (t1 - t0, t2 - t1, time.time() - t2))


# ================================================================== 10. history: the caller writes into what it was given, then asks again
def _arrays(obj, out=None):
    """every numpy array reachable from a returned object (arrays, nested lists / tuples, quara objects' vec / vecs / hs / hss)"""
    out = [] if out is None else out
    if isinstance(obj, np.ndarray):
        out.append(obj)
    elif isinstance(obj, (list, tuple)):
        for x in obj:
            _arrays(x, out)
    else:
        for attr in ("vec", "vecs", "hs", "hss"):
            try:
                val = getattr(obj, attr)
            except Exception:
                continue
            if isinstance(val, (np.ndarray, list, tuple)):
                _arrays(val, out)
    return out


def _snapshot(obj):
    return [np.array(a, copy=True) for a in _arrays(obj)]


def _same(a, b):
    return len(a) == len(b) and all(x.shape == y.shape and np.array_equal(x, y) for x, y in zip(a, b))


def _scribble(obj):
    """in-place arithmetic of an ordinary caller (v *= c; v += w) on every writeable array it was given; returns the number of arrays written"""
    n = 0
    for a in _arrays(obj):
        if a.flags.writeable and a.size:
            try:
                a *= 0
                a += (7.5 + 2j) if np.iscomplexobj(a) else 7.5
                n += 1
            except Exception:
                pass
    return n


def alias_calls(ctx):
    """(site, label, callable) for every raw-array object form of every family on the small systems (+ the 3-qubit / 2-qutrit special names):
    the reference set that is generated, snapshotted, handed to a writing caller and generated again"""
    q = Q(); cat = CAT(); calls = []
    c = {k: csys(k) for k in SYSN}
    st_names = [(sysname, n) for sysname in ("1qubit", "2qubit", "1qutrit") for n in cat.state_names[sysname]] + \
        [("3qubit", n) for n in ("ghz", "werner", "z0_z1_x0", "z1_y0_z0")] + [("2qutrit", n) for n in ("00_11_22_superposition", "01z0_12x1")]
    for sysname, n in st_names:
        calls.append(("state_typical.generate_state_pure_state_vector_from_name", ("state", n, "pure_state_vector"), lambda n=n: q.qt.generate_state_object(n, "pure_state_vector")))
        calls.append(("state_typical.generate_state_density_mat_from_name", ("state", n, "density_mat"), lambda n=n: q.qt.generate_state_object(n, "density_mat")))
        calls.append(("state_typical.generate_state_density_matrix_vector_from_name", ("state", n, "density_matrix_vector"),
                      lambda n=n, cs=c[sysname]: q.qt.generate_state_object(n, "density_matrix_vector", cs)))
        if SYSDIM[sysname] <= 4:
            calls.append(("state_typical.generate_state_from_name", ("state", n, "state"), lambda n=n, cs=c[sysname]: q.qt.generate_state_object(n, "state", cs)))
    for sysname in ("1qubit", "2qubit", "1qutrit"):
        for n in cat.povm_names[sysname]:
            if all(p in q.pt.get_povm_names_rank1() for p in n.split("_")):
                calls.append(("povm_typical.generate_povm_pure_state_vectors_from_name", ("povm", n, "pure_state_vectors"), lambda n=n: q.qt.generate_povm_object(n, "pure_state_vectors")))
            calls.append(("povm_typical.generate_povm_matrices_from_name", ("povm", n, "matrices"), lambda n=n: q.qt.generate_povm_object(n, "matrices")))
            calls.append(("povm_typical.generate_povm_vectors_from_name", ("povm", n, "vectors"),
                          lambda n=n, cs=c[sysname]: q.pt.generate_povm_object_from_povm_name_object_name(n, "vectors", basis=cs.basis())))
            calls.append(("povm_typical.generate_povm_from_name", ("povm", n, "povm"), lambda n=n, cs=c[sysname]: q.qt.generate_povm_object(n, "povm", cs)))
    gsel = [("1qubit", n, [2], [0]) for n in cat.gate_names["1qubit"]] + [("2qubit", n, [2, 2], ids) for n in cat.gate_names["2qubit"] for ids in ([0, 1], [1, 0])] + \
        [("3qubit", n, [2, 2, 2], [1, 2, 0]) for n in cat.gate_names["3qubit"]] + [("1qutrit", n, [3], [0]) for n in cat.gate_names["1qutrit"][::3]] + \
        [("2qutrit", n, [3, 3], [0, 1]) for n in ("i01x90", "01z12y180", "01xi90_i12y180")]
    for sysname, n, dims, ids in gsel:
        calls.append(("gate_typical.generate_unitary_mat_from_gate_name", ("gate", n, tuple(ids), "unitary_mat"), lambda n=n, dims=dims, ids=ids: q.gt.generate_unitary_mat_from_gate_name(n, dims, ids)))
        calls.append(("effective_lindbladian_typical.generate_hamiltonian_mat_from_gate_name", ("gate", n, tuple(ids), "hamiltonian_mat"),
                      lambda n=n, dims=dims, ids=ids: q.lt.generate_hamiltonian_mat_from_gate_name(n, dims, ids)))
        if SYSDIM[sysname] <= 4:
            calls.append(("gate_typical.generate_gate_mat_from_gate_name", ("gate", n, tuple(ids), "gate_mat"), lambda n=n, dims=dims, ids=ids: q.gt.generate_gate_mat_from_gate_name(n, dims, ids)))
            calls.append(("effective_lindbladian_typical.generate_hamiltonian_vec_from_gate_name", ("gate", n, tuple(ids), "hamiltonian_vec"),
                          lambda n=n, dims=dims, ids=ids: q.lt.generate_hamiltonian_vec_from_gate_name(n, dims, ids)))
            calls.append(("gate_typical.generate_gate_from_gate_name", ("gate", n, tuple(ids), "gate"), lambda n=n, cs=c[sysname], ids=ids: q.gt.generate_gate_from_gate_name(n, cs, ids)))
    for n in cat.mproc_names:
        sysname = cat.mproc[n][1]
        if n in q.mt.get_mprocess_names_type1_set_pure_state_vectors():
            calls.append(("mprocess_typical.generate_mprocess_set_pure_state_vectors_from_name", ("mprocess", n, "set_pure_state_vectors"), lambda n=n: q.qt.generate_mprocess_object(n, "set_pure_state_vectors")))
        calls.append(("mprocess_typical.generate_mprocess_set_kraus_matrices_from_name", ("mprocess", n, "set_kraus_matrices"), lambda n=n: q.qt.generate_mprocess_object(n, "set_kraus_matrices")))
        calls.append(("mprocess_typical.generate_mprocess_hss_from_name", ("mprocess", n, "hss"), lambda n=n, cs=c[sysname]: q.qt.generate_mprocess_object(n, "hss", cs)))
    for n in q.et.get_state_ensemble_names():
        calls.append(("state_ensemble_typical.generate_state_ensemble_elements_from_name", ("state_ensemble", n, "elements"),
                      lambda n=n: [s_.vec for s_ in q.et.generate_state_ensemble_elements_from_name(n, c["1qubit"])[0]]))
    # named bases and legacy constructors hand out arrays too
    mb = q.mb
    for label, f in (("get_pauli_basis(1)", lambda: [dense(b) for b in mb.get_pauli_basis(1)]), ("get_normalized_pauli_basis(2)", lambda: [dense(b) for b in mb.get_normalized_pauli_basis(2)]),
                     ("get_normalized_gell_mann_basis", lambda: [dense(b) for b in mb.get_normalized_gell_mann_basis()]), ("get_comp_basis(2)", lambda: [dense(b) for b in mb.get_comp_basis(2)])):
        calls.append(("matrix_basis.named_basis", ("basis", label), f))
    return calls


def chk_aliasing(ctx, case):
    """HISTORY on returned arrays: every catalogue entry of the reference set is generated and snapshotted; then, entry by entry, a caller receives
    the object, does in-place arithmetic on every writeable array in it, and asks for the same entry again (must be unchanged: the catalogue never hands
    out its own storage); finally the whole reference set is generated once more and compared with the snapshots (a write into one entry must not change
    another).  Arrays that are read-only are left alone.  This sub-check runs LAST: a catalogue that fails it is corrupted for the rest of the process."""
    calls = alias_calls(ctx)
    only = case.get("only")
    if only is not None:
        calls = [cl for cl in calls if [list(x) if isinstance(x, tuple) else x for x in cl[1]] == [list(x) if isinstance(x, (list, tuple)) else x for x in only]]
    ref = []
    for site, label, f in calls:
        try:
            ref.append(_snapshot(f()))
        except Exception as e:
            ref.append(None)
    written = 0; direct = set()
    for k, (site, label, f) in enumerate(calls):
        if ref[k] is None:
            continue
        ctx.count("aliasing", key=label, nontrivial=True, label=label[0])
        try:
            obj = f()
        except Exception:
            continue
        nw = _scribble(obj); written += nw
        if nw == 0:
            continue
        try:
            again = _snapshot(f())
        except Exception as e:
            again = None
        if again is None or not _same(again, ref[k]):
            direct.add(k)
            V(ctx, "aliasing", site, "returned-array-aliases-catalogue-state",
              "%s %r form %r: after the caller wrote in place into the returned array(s), generating the same entry again %s - the catalogue handed out its own storage" % (
                  label[0], label[1], label[-1], "raises" if again is None else "yields different values"), {"only": list(label)})
            break                  # the catalogue is corrupted from here on: stop writing, list what is affected
    bad = []
    for k, (site, label, f) in enumerate(calls):
        if ref[k] is None or k in direct:
            continue
        try:
            again = _snapshot(f())
        except Exception:
            again = None
        if again is None or not _same(again, ref[k]):
            bad.append((site, label))
    if bad:
        site, label = bad[0]
        V(ctx, "aliasing", site, "catalogue-entry-changed-by-caller-writes",
          "%d (entry, form) pairs differ from their first generation after a caller wrote into arrays returned for OTHER entries, e.g. %s" % (
              len(bad), ", ".join("%s %r %r" % (l[0], l[1], l[-1]) for _, l in bad[:8])),
          {"only": None, "affected": [list(l) for _, l in bad[:40]]})
    ctx.note("aliasing: %d (entry, form) pairs generated, %d returned arrays written in place by the simulated caller, every entry generated again afterwards" % (len(calls), written))


def sub_aliasing(ctx):
    ctx.sample("aliasing", {"only": None}); ctx.run_cases("aliasing", FNS["aliasing"], [{"only": None}])


def _guard(sub, fn):
    """quara signals several errors with `assert`; the runner re-raises AssertionError (it is reserved for harness self-checks), so an
    assertion failing inside the implementation is turned into a violation here instead of aborting the run"""
    def wrapped(ctx, case):
        try:
            return fn(ctx, case)
        except AssertionError as e:
            import traceback
            tb = traceback.format_exc()
            ctx.violation(sub, sub, "exception:AssertionError", "unexpected AssertionError: %s" % (str(e)[:200] or tb.strip().splitlines()[-2].strip()[:200]),
                          {"case": case, "traceback": tb[-1500:]})
    return wrapped


SUBS_LAST = [("aliasing", sub_aliasing)]          # corrupts the process when it finds a defect: after everything else
SUBS = [("catalogue", sub_catalogue), ("bases", sub_bases), ("states", sub_states), ("povms", sub_povms), ("gates", sub_gates), ("permute", sub_permute), ("triples", sub_triples),
        ("mprocess", sub_mprocess), ("ensembles", sub_ensembles), ("unknown_names", sub_unknown), ("gates_2qutrit", sub_2qutrit)]
FNS = {"aliasing": chk_aliasing, "catalogue": chk_catalogue, "bases": chk_basis, "states": chk_states_any, "povms": chk_povm_any, "gates": chk_gate_any, "permute": chk_permute, "triples": chk_triple, "mprocess": chk_mprocess,
       "ensembles": chk_ensemble, "unknown_names": chk_unknown_any, "gates_2qutrit": chk_2qutrit}
FNS = {k: _guard(k, f) for k, f in FNS.items()}


def _timed(name, fn):
    def wrapped(ctx):
        import time
        def cpu():
            t = os.times(); return t[0] + t[1] + t[2] + t[3]          # own + reaped children (worker pool; not the model driver)
        t0 = time.time(); c0 = cpu(); fn(ctx)
        _cache.setdefault("times", []).append((name, time.time() - t0, cpu() - c0))
    return wrapped


def regen_names(ctx):
    """translator tie (protocol of flow.regen_check with this property's own translator gen/c17_py2coq.py): regenerate the Gallina text of the
    name -> Hamiltonian code of gate_typical.py from the CURRENT source, compile it, and re-check coq/gen/C17_Equiv.v (quick and thorough) and
    coq/gen/C17_EquivAll.v (thorough: all 39 204 names).  returns (ok, info)"""
    import re, shutil, subprocess, sys
    import runner
    Vd = runner.V
    scratch = os.path.join(getattr(ctx, "scratch", os.path.join(Vd, "build", ctx.prop_id)), "gen")
    os.makedirs(scratch, exist_ok=True)
    files = ["C17_Equiv"] + ([] if ctx.quick else ["C17_EquivAll", "C17_EquivLists"])
    thms = []
    for fn in files:
        src = open(os.path.join(Vd, "coq", "gen", fn + ".v")).read()
        thms += re.findall(r"^\s*Theorem\s+([\w']+)", re.sub(r"\(\*.*?\*\)", " ", src, flags=re.S), flags=re.M)
    ctx.theorems = list(ctx.theorems) + [t for t in thms if t not in ctx.theorems]
    ctx.obligations += len(thms)
    gen_v = os.path.join(scratch, "Gen_c17_names.v")
    r = subprocess.run([sys.executable, os.path.join(Vd, "gen", "c17_py2coq.py"), os.environ.get("VERIF_REPO", "/repo"), gen_v], capture_output=True, text=True, timeout=120)
    if r.returncode != 0:
        return False, {"theorem": "translator-tie(gen/c17_py2coq.py)", "error": "translator rejected the source (outside its subset): " + (r.stdout + r.stderr)[-600:]}
    ctx.note("translator tie: " + r.stdout.strip()[:900])
    qargs = ["-Q", os.path.join(Vd, "coq", "theories"), "QV", "-Q", scratch, "QVGen"]
    r = subprocess.run(["timeout", "300", "coqc"] + qargs + [gen_v], capture_output=True, text=True)
    if r.returncode != 0:
        return False, {"theorem": thms[0], "error": "regenerated definitions do not compile: " + (r.stdout + r.stderr)[-600:]}
    nblocks = 0
    for fn in files:
        dst = os.path.join(scratch, fn + ".v")
        shutil.copy(os.path.join(Vd, "coq", "gen", fn + ".v"), dst)
        r = subprocess.run(["timeout", "600", "coqc"] + qargs + [dst], capture_output=True, text=True)
        out = r.stdout + r.stderr
        if r.returncode != 0:
            m_ = re.search(r"line (\d+), characters", out); thm = None
            if m_:
                upto = "\n".join(open(dst).read().splitlines()[:int(m_.group(1))])
                names = re.findall(r"^\s*(?:Theorem|Lemma)\s+([\w']+)", upto, flags=re.M)
                thm = names[-1] if names else None
            return False, {"theorem": thm, "error": out[-800:]}
        blocks = runner.parse_assumptions(out)
        bad = [a for closed, axs in blocks for a in axs if a not in runner.ALLOWED_AXIOMS and a.split(".")[-1] not in runner.ALLOWED_AXIOMS]
        if bad:
            return False, {"theorem": thms[0], "error": "assumption gate on regenerated proofs: disallowed %s" % bad}
        for closed, axs in blocks:
            if nblocks < len(thms):
                ctx.axioms[thms[nblocks]] = "closed" if closed else sorted(set(axs))
            nblocks += 1
    if nblocks != len(thms):
        return False, {"theorem": thms[0], "error": "assumption gate on regenerated proofs: %d blocks / %d theorems" % (nblocks, len(thms))}
    ctx.discharged += len(thms)
    return True, {}


def run(ctx):
    ctx.rule = ("complete enumeration of every get_*_names* list x listed system (1, 2, 3 qubits, 1, 2 qutrits) x id order against the textbook tables; "
                "every object_name form, model tie and exact PSD decision for every name in the thorough tier and, in the quick tier, for every name on the "
                "systems of dimension <= 4 and a seeded sample on the 8- / 9-dimensional systems (see the notes); 2-qutrit gate names: Hamiltonian against the table "
                "for all names (thorough) / a seeded 3000 + all single-base-matrix names (quick), dispatchers on 5074 / 60 names; "
                "unknown names = seeded single-character mutations of listed names, names of the other catalogues and hyphenated / truncated spellings; "
                "non-trivial = everything except identity gates / fixed-point triples / sorted id orders and constant symbols of the permutation check / "
                "mutated names that happen to be valid; distinct = distinct (system, name, ids, form)")
    ctx.assumptions = ["C17: the tables of Model/C17_Tables.v are the textbook meaning of the names (trusted spec, proved self-consistent in Props/C17.v)",
                       "C17: Hamiltonian / Lindbladian exponentials are compared numerically (own Taylor series vs the implementation), not derived; "
                       "CP of 8- and 9-dimensional gates is certified through the Kraus form HS = hs_of_kraus [U] (NumPy; Coq model on a sample), not by an exact PSD decision",
                       "C17: quick tier only - quara's own Gate / MProcess physicality verdict is not asked at dimension 8 and 9 (objects built with is_physicality_required=False; "
                       "physicality established by the harness: U unitary, HS = hs_of_kraus [U], TP row / Choi eigenvalues); the thorough tier asks every verdict"]
    # flow.standard_run with this property's own translator tie
    import runner, time
    load_cat(ctx)
    ok, info = runner.check_props(ctx)
    t0 = time.time()
    ok2, info2 = regen_names(ctx)
    _cache.setdefault("times", []).append(("translator-tie", time.time() - t0, 0.0))
    if not ok2:
        ok, info = False, info2
        ctx.boost = True          # widen: the Hamiltonian of ALL 2-qutrit names is compared with the tables to find a concrete failing name
        ctx.note("regenerated-parser obligations (coq/gen/C17_Equiv*.v) not discharged: %s" % str(info2)[:500])
    if not ok:
        ctx.discharged = min(ctx.discharged, ctx.obligations - 1)
    for name, fn in SUBS + SUBS_LAST:
        if ctx.only is None or name in ctx.only:
            _timed(name, fn)(ctx)
    if not ok and not ctx.violations:
        ctx.violation("theorems", "Props/%s.v" % ctx.prop_id, "theorem-broken:%s" % info.get("theorem"),
                      "theorem %s no longer checks: %s" % (info.get("theorem"), info.get("error", "")[-400:]),
                      {"theorem": info.get("theorem"), "error": info.get("error")}, no_input=True)
    elif not ok:
        ctx.note("theorem obligations not discharged: %s" % info)
    ctx.note("wall / cpu time per sub-check (s): " + ", ".join("%s %.1f/%.1f" % kv for kv in _cache.get("times", [])))


def replay(ctx, doc):
    load_cat(ctx)
    flow.standard_replay(ctx, doc, FNS)
